#!/usr/bin/env python3
"""Fail-closed translator: the iterative solvers of sigpy/alg.py (Python `ast`) -> Gallina.

From the SOURCE TEXT of alg.py (and of util.axpy / util.xpay in util.py) it regenerates, on every run,
Gallina definitions of

    Alg.update, Alg.done
    ConjugateGradient.__init__ / _update / _done
    GradientMethod.__init__ / _update / _done            (both `accelerate` branches, with / without proxg)
    PowerMethod.__init__ / _update / _done
    PrimalDualHybridGradient.__init__ / _update / _done  (scalar steps: model/Alg.v; array steps: model/Alg2.v)
    NewtonsMethod._done, GerchbergSaxton._done           (stop rules only)

written over the SAME abstract operations as the hand models (coq/model/Alg.v, Alg2.v -> gen/Gen_alg.v;
coq/model/ProxGrad.v, the model of C13 -> gen/Gen_alg_pg.v), each followed by a machine-checked lemma
    Lemma gen_<name>_ok : forall ..., gen_<name> ... = <hand model> ... .
proved by unfolding, case analysis on the tests that occur, and `reflexivity` -- nothing else.  A change of
alg.py (an added eps, swapped axpy arguments, `<` for `<=`, a dropped `real`, `4*t` for `4*t**2`, a dropped
`.copy()` ...) either is outside the accepted fragment (TranslationError naming the line: FAIL CLOSED) or
produces a different term, and the lemma no longer compiles.

How a method is read (see notes/translate_alg.md):
  * symbolic execution of the statements in order; `self.f` for a modelled attribute f is a field of the
    state record, in-place updates (`+=`, `*=`, util.axpy, util.xpay, backend.copyto) become functional
    updates in statement order; every assignment is emitted as a `let`;
  * arrays are REFERENCES to buffers: `z = self.r` aliases, `self.x.copy()`, arithmetic and calls of the
    user's functions give fresh buffers; an in-place update is seen through every alias.  `.copy()` is the
    identity on values (so a dropped `.copy()` changes the generated term exactly when it matters);
  * an `if` forks the path (the continuation is translated once per branch); a test that was already
    decided on the path is resolved statically; `self.P is None` becomes a `match` on the option;
  * util.axpy / util.xpay are inlined from the text of util.py;
  * aliasing facts that are invisible in the values are checked on every path and fail closed (Method.alias_facts,
    Method.may_write, the constant-array check in Method.leaf).

Entry points: translate_alg(repo[, alg_path]) / translate_alg_pg(repo[, alg_path]) -> text of the generated file;
translate_sources(alg_src, util_src, which) for source strings; tie(ctx, jobs) for the checks C12 / C13 / C15;
tools/test_translate_alg.py is the self-test (mutations of a copy of alg.py).
"""
import ast
import copy
import hashlib
import os
import re
import sys


class TranslationError(Exception):
    pass


# ---------------------------------------------------------------------------------------------
# types of symbolic values
# ---------------------------------------------------------------------------------------------
V, U, S, Z, B = "V", "U", "S", "Z", "B"          # primal array, dual array, real scalar, Python int, bool
TX, TU = "TX", "TU"                              # primal / dual step size (scalar or array), ProxGrad.v only
LIT = "lit"                                      # Python integer literal, not yet given a type
FLT = "flt"                                      # Python float literal (only 0.5 as an exponent)
CPLX = "C"                                       # xp.vdot(..) without xp.real: no operation accepts it
SCALARS = (S, Z, B, LIT, FLT, CPLX)


class Val:
    """A symbolic value.  Array-typed variables carry `buf` (a buffer id; the current term is in env.store)."""
    __slots__ = ("ty", "term", "buf", "lit", "origin")

    def __init__(self, ty, term=None, buf=None, lit=None, origin=None):
        self.ty, self.term, self.buf, self.lit, self.origin = ty, term, buf, lit, origin


class Fun:
    """A function-valued constructor argument (self.A, self.P, self.gradf, self.proxg ...)."""

    def __init__(self, term, args, ret, optional=False):
        self.term, self.args, self.ret, self.optional = term, tuple(args), ret, optional


class Marker:
    def __init__(self, kind):
        self.kind = kind                         # 'dev', 'xp', 'none', 'module:<name>'


DEV, XP, NONE = Marker("dev"), Marker("xp"), Marker("none")


class Field:
    def __init__(self, ty, proj):
        self.ty, self.proj = ty, proj


class Param:
    def __init__(self, what):
        self.what = what                         # Val (constant array / scalar / bool) or Fun


class Scratch:
    def __init__(self, ty):
        self.ty = ty


class Ignore:
    pass


# ---------------------------------------------------------------------------------------------
# operation tables ("dialects"): (operation, operand types) -> (Coq format, result type)
# ---------------------------------------------------------------------------------------------
ZOPS = {
    ("add", Z, Z): ("({0} + {1})", Z), ("sub", Z, Z): ("({0} - {1})", Z),
    # Python a < b / a <= b; a > b and a >= b are normalised to the swapped `<` / `<=`
    ("lt", Z, Z): ("({0} <? {1})", B), ("le", Z, Z): ("({0} <=? {1})", B),
    ("gt", Z, Z): ("({1} <? {0})", B), ("ge", Z, Z): ("({1} <=? {0})", B),
    ("and", B, B): ("({0} && {1})", B), ("or", B, B): ("({0} || {1})", B), ("not", B): ("(negb {0})", B),
}

# model/Alg.v : record IPOps (scalars Sc E, vectors Vec E)
IPOPS = dict(ZOPS)
IPOPS.update({
    ("add", V, V): ("(vadd {0} {1})", V), ("sub", V, V): ("(vsub {0} {1})", V),
    ("mul", S, V): ("(vscale {0} {1})", V),
    ("mul", V, S): ("(vscale {1} {0})", V),      # array * scalar: scalar-first normal form (IEEE `*` commutes)
    ("div", V, S): ("(vdivs {0} {1})", V),
    ("neg", V): ("(vscale (sopp s1) {0})", V),
    ("add", S, S): ("(sadd {0} {1})", S), ("sub", S, S): ("(ssub {0} {1})", S),
    ("mul", S, S): ("(smul {0} {1})", S), ("div", S, S): ("(sdiv {0} {1})", S),
    ("neg", S): ("(sopp {0})", S), ("sqrt", S): ("(ssqrt {0})", S), ("sq", S): ("(smul {0} {0})", S),
    ("le", S, S): ("(sleb {0} {1})", B),
    ("vdot", V, V): ("(vdot {0} {1})", S),       # xp.real(xp.vdot(a, b))
    ("norm", V): ("(vnorm {0})", S),             # xp.linalg.norm(a)
    ("max", S, S): ("(if sleb {1} {0} then {0} else {1})", S),   # Python max(a, b): b if b > a else a
})
IPLIT = {0: "(@s0 E)", 1: "(@s1 E)", 2: "(lit2 E)", 4: "(lit4 E)"}

# PrimalDualHybridGradient with scalar steps (Section PDHG of model/Alg.v)
PDHG_OPS = dict(IPOPS)
PDHG_OPS.update({
    ("add", U, U): ("(uadd {0} {1})", U), ("sub", U, U): ("(usub {0} {1})", U),
    ("mul", S, U): ("(uscale {0} {1})", U), ("mul", U, S): ("(uscale {1} {0})", U),
    ("div", U, S): ("(udivs {0} {1})", U),
    ("norm", U): ("(unorm E U udot {0})", S),
    ("gt0", S): ("(sgt0 {0})", B), ("eq0", S): ("(seq0 {0})", B),
    ("aminabs", S): ("(aminabs_s {0})", S),
})
# ... with array-valued steps (Section PDHGArr of model/Alg2.v): tau : Vec E, sigma : U
PDHGA_OPS = dict(PDHG_OPS)
del PDHGA_OPS[("aminabs", S)]
PDHGA_OPS.update({
    ("mul", V, V): ("(xmul {0} {1})", V), ("div", V, V): ("(xdiv {0} {1})", V), ("sqrt", V): ("(xsqrt {0})", V),
    ("mul", U, U): ("(umul {0} {1})", U), ("div", U, U): ("(udiv {0} {1})", U), ("sqrt", U): ("(usqrt {0})", U),
    ("norm", U): ("(ua_norm E U udot {0})", S),
    ("aminabs", V): ("(aminabs_x {0})", S), ("aminabs", U): ("(aminabs_u {0})", S),
})

# model/ProxGrad.v (C13): record SOps + explicit vector operations
PG_S = {
    ("add", S, S): ("(sadd {0} {1})", S), ("sub", S, S): ("(ssub {0} {1})", S),
    ("mul", S, S): ("(smul {0} {1})", S), ("div", S, S): ("(sdiv {0} {1})", S),
    ("neg", S): ("(sopp {0})", S), ("sqrt", S): ("(ssqrt {0})", S), ("sq", S): ("(smul {0} {0})", S),
    ("max", S, S): ("(smax {0} {1})", S),
    ("gt0", S): ("(sgt0 {0})", B), ("eq0", S): ("(seq0 {0})", B),
    ("and", B, B): ("({0} && {1})", B), ("or", B, B): ("({0} || {1})", B), ("not", B): ("(negb {0})", B),
}
PGLIT = {0: "(@s0 S)", 1: "(@s1 S)", 2: "(@s2 S)", 4: "(@s4 S)"}
PG_GM_OPS = dict(PG_S)
PG_GM_OPS.update({
    ("add", V, V): ("(vadd {0} {1})", V), ("sub", V, V): ("(vsub {0} {1})", V),
    ("mul", S, V): ("(vscale {0} {1})", V), ("mul", V, S): ("(vscale {1} {0})", V),
    ("norm", V): ("(vnorm {0})", S),
})
PG_PD_OPS = dict(PG_S)
PG_PD_OPS.update({
    ("add", V, V): ("(xadd {0} {1})", V), ("sub", V, V): ("(xsub {0} {1})", V),
    ("mul", S, V): ("(xscale {0} {1})", V), ("mul", V, S): ("(xscale {1} {0})", V), ("norm", V): ("(xnorm {0})", S),
    ("add", U, U): ("(uadd {0} {1})", U), ("sub", U, U): ("(usub {0} {1})", U), ("norm", U): ("(unorm {0})", S),
    ("mul", TU, U): ("(tuact {0} {1})", U), ("mul", TX, V): ("(txact {0} {1})", V), ("neg", TX): ("(txneg {0})", TX),
    # v / tau**0.5 is ONE operation of the model: `tau**0.5` is kept symbolic (pseudo type) until the division
    ("sqrt", TU): ("{0}", "sqrt:TU"), ("sqrt", TX): ("{0}", "sqrt:TX"),
    ("div", U, "sqrt:TU"): ("(tudivsqrt {0} {1})", U), ("div", V, "sqrt:TX"): ("(txdivsqrt {0} {1})", V),
    ("mul", TX, S): ("(txmuls {0} {1})", TX), ("div", TX, S): ("(txdivs {0} {1})", TX),
    ("mul", TU, S): ("(tumuls {0} {1})", TU), ("div", TU, S): ("(tudivs {0} {1})", TU),
    ("aminabs", TX): ("(txmin {0})", S), ("aminabs", TU): ("(tumin {0})", S),
})

RESERVED = {"by", "at", "in", "as", "end", "fun", "let", "if", "then", "else", "with", "using", "return", "fix",
            "cofix", "match", "forall", "exists", "where", "for", "mod", "Set", "Prop", "Type", "IF", "st"}


def san(text):
    """Python source inside a Coq comment."""
    return " ".join(text.split()).replace("(*", "( *").replace("*)", "* )")


# ---------------------------------------------------------------------------------------------
# the per-path environment
# ---------------------------------------------------------------------------------------------
class Env:
    def __init__(self):
        self.locals = {}          # name -> Val | Fun | Marker
        self.fields = {}          # attr -> Val     (state fields and scratch attributes)
        self.params = {}          # attr -> Val | Fun
        self.store = {}           # buffer id -> current term
        self.facts = {}           # boolean term -> True/False decided on this path
        self.opt = {}             # optional Fun attr -> "none" | bound name
        self.dev_attrs = set()    # attributes holding a device
        self.frames = []          # saved locals of inlined callers
        self.lines = []           # `let` lines of the current straight-line segment

    def fork(self):
        e = Env()
        e.locals, e.fields, e.params = dict(self.locals), dict(self.fields), dict(self.params)
        e.store, e.facts, e.opt = dict(self.store), dict(self.facts), dict(self.opt)
        e.dev_attrs = set(self.dev_attrs)
        e.frames = [dict(f) for f in self.frames]
        e.lines = []
        return e


class PopFrame:
    """pseudo statement closing an inlined call"""
    lineno = 0


# ---------------------------------------------------------------------------------------------
# translation of one method against one specification
# ---------------------------------------------------------------------------------------------
class Method:
    def __init__(self, mod, spec):
        self.mod = mod                    # Module (parsed sources)
        self.spec = spec
        self.ops = spec["ops"]
        self.lit = spec["lit"]
        self.counter = {}
        self.nbuf = 0
        self.bufname = {}                 # buffer id -> name of the variable / attribute it was first bound to
        self.entry_bufs = {}              # _update: array attribute -> buffer at entry
        self.arg_bufs = {}                # __init__: array argument -> buffer
        self.callbufs = {}                # buffers bound directly to the result of a user function: buffer -> "self.<f>"
        self.const_bufs = {}              # constant array parameters: attr -> (buffer, term); must be unchanged at every exit
        self.sites_file = []
        self.sites = []                   # call sites of the inlined functions being executed

    # ---- helpers ---------------------------------------------------------------------------
    def err(self, node, msg):
        ln = getattr(node, "lineno", 0)
        seg = ""
        try:
            seg = ast.unparse(node) if isinstance(node, ast.AST) else ""
        except Exception:
            pass
        raise TranslationError("%s.%s, alg.py line %d: %s%s" % (self.spec["cls"], self.spec["method"], ln, msg,
                                                                (": `%s`" % " ".join(seg.split())[:140]) if seg else ""))

    def fresh(self, hint):
        hint = re.sub(r"[^A-Za-z0-9_]", "_", hint)
        k = self.counter.get(hint, 0) + 1
        self.counter[hint] = k
        return "%s_%d" % (hint, k)

    def newbuf(self, env, term, name=None):
        self.nbuf += 1
        env.store[self.nbuf] = term
        if name:
            self.bufname[self.nbuf] = name
        return self.nbuf

    def term(self, v, env):
        if not isinstance(v, Val):
            raise TranslationError("%s.%s: a function / module object is used as a value" % (self.spec["cls"], self.spec["method"]))
        if v.buf is not None:
            return env.store[v.buf]
        if v.ty == LIT:
            raise TranslationError("%s.%s: untyped integer literal %r used as a value" % (self.spec["cls"], self.spec["method"], v.lit))
        return v.term

    def coerce(self, v, ty, node):
        """an integer literal in a scalar / int position"""
        if not isinstance(v, Val):
            self.err(node, "a function / module object is used as a value")
        if v.ty != LIT:
            return v
        if ty == Z:
            return Val(Z, str(v.lit) if v.lit >= 0 else "(%d)" % v.lit)
        if ty == S:
            if v.lit not in self.lit:
                self.err(node, "integer literal %d in a floating-point position is not representable over the model's operations" % v.lit)
            return Val(S, self.lit[v.lit])
        self.err(node, "integer literal where a value of type %s is expected" % ty)

    def let(self, env, hint, term, node, what=None):
        name = self.fresh(hint)
        if name in RESERVED:
            name += "_"
        cm = ""
        if node is not None and getattr(node, "lineno", 0):
            txt = san(what or ast.unparse(node))
            if self.sites and not isinstance(node, PopFrame):
                cm = "   (* %s  [%s: %s] *)" % (self.sites[-1], self.sites_file[-1], txt)
            else:
                cm = "   (* L%d: %s *)" % (node.lineno, txt)
        env.lines.append("let %s := %s in%s" % (name, term, cm))
        return name

    def op(self, name, vals, env, node):
        vals = list(vals)
        for v in vals:
            if not isinstance(v, Val):
                self.err(node, "a function / module object is used as an operand")
        # `a > 0`, `a == 0` on scalars are single operations of the PDHG models
        if name in ("gt", "eq") and len(vals) == 2 and vals[0].ty == S and vals[1].ty == LIT and vals[1].lit == 0:
            key = (name + "0", S)
            if key in self.ops:
                fmt, rty = self.ops[key]
                return Val(rty, fmt.format(self.term(vals[0], env)))
        tys = [v.ty for v in vals]
        if all(t == LIT for t in tys):
            self.err(node, "arithmetic on integer literals only")
        if LIT in tys:
            other = [t for t in tys if t != LIT][0]
            target = Z if other == Z else S
            vals = [self.coerce(v, target, node) for v in vals]
            tys = [v.ty for v in vals]
        key = (name,) + tuple(tys)
        if key not in self.ops:
            self.err(node, "operation `%s` on operands of type (%s) is not one of the hand model's operations" % (name, ", ".join(tys)))
        fmt, rty = self.ops[key]
        return Val(rty, fmt.format(*[self.term(v, env) for v in vals]))

    # ---- attributes ------------------------------------------------------------------------
    def load_attr(self, attr, env, node):
        a = self.spec["attrs"].get(attr)
        if isinstance(a, Field) or isinstance(a, Scratch):
            if attr not in env.fields:
                self.err(node, "self.%s is read before it is assigned" % attr)
            return env.fields[attr]
        if isinstance(a, Param):
            return env.params[attr]
        if attr in env.dev_attrs:
            return DEV
        self.err(node, "self.%s is not an attribute of the hand model" % attr)

    def bind_value(self, env, hint, v, node, ty=None):
        """value of an assignment `name = v` / `self.attr = v`: arrays alias, fresh values get a `let`"""
        if ty is not None:
            v = self.coerce(v, ty, node)
            if v.ty != ty:
                self.err(node, "value of type %s assigned where the model has type %s" % (v.ty, ty))
        if v.ty == LIT:
            return v
        if v.ty in SCALARS or v.ty.startswith("sqrt:"):
            if v.ty in (CPLX, FLT) or v.ty.startswith("sqrt:"):
                self.err(node, "a value of type %s cannot be stored" % v.ty)
            return Val(v.ty, self.let(env, hint, v.term, node))
        if v.buf is not None:            # a bare reference: ALIAS (same buffer)
            return Val(v.ty, None, buf=v.buf)
        buf = self.newbuf(env, self.let(env, hint, v.term, node), hint)
        if v.origin:
            self.callbufs[buf] = v.origin
        return Val(v.ty, None, buf=buf)

    def store_attr(self, attr, v, env, node):
        a = self.spec["attrs"].get(attr)
        if v is DEV:
            if a is not None and not isinstance(a, Ignore):
                self.err(node, "a device is assigned to the modelled attribute self.%s" % attr)
            env.dev_attrs.add(attr)
            return
        if isinstance(a, Ignore):
            return
        if a is None:
            self.err(node, "assignment to self.%s, which is not an attribute of the hand model" % attr)
        if isinstance(a, Param):
            if self.spec["kind"] != "init" or env.frames:
                self.err(node, "self.%s is a constructor constant of the model but is assigned here" % attr)
            want = env.params[attr]
            same = (v is want) or (isinstance(v, Val) and isinstance(want, Val) and v.ty == want.ty
                                   and self.term(v, env) == self.term(want, env))
            if isinstance(v, Fun) and isinstance(want, Fun):
                same = v.term == want.term
            if not same:
                self.err(node, "self.%s is not assigned the constructor argument the model assumes" % attr)
            return
        if not isinstance(v, Val):
            self.err(node, "a function / module object is stored in self.%s" % attr)
        env.fields[attr] = self.bind_value(env, attr, v, node, ty=a.ty)

    def may_write(self, buf, node):
        """results of the user's functions are ASSUMED fresh by the value model, so they must never be written"""
        if buf in self.callbufs:
            self.err(node, "in-place write into the array returned by %s (the model assumes results of the user's functions "
                           "are fresh arrays that are only read)" % self.callbufs[buf])

    def update_inplace(self, target_val, newv, env, node, hint):
        """x op= e  on a variable holding target_val"""
        if newv.ty != target_val.ty:
            self.err(node, "in-place update changes the type from %s to %s" % (target_val.ty, newv.ty))
        if target_val.buf is not None:      # array: every alias sees the update
            self.may_write(target_val.buf, node)
            env.store[target_val.buf] = self.let(env, self.bufname.get(target_val.buf, hint), newv.term, node)
            return target_val
        return Val(newv.ty, self.let(env, hint, newv.term, node))

    # ---- expressions -----------------------------------------------------------------------
    def is_self_attr(self, n):
        return isinstance(n, ast.Attribute) and isinstance(n.value, ast.Name) and n.value.id == "self"

    def ev(self, n, env):
        if isinstance(n, ast.Constant):
            if isinstance(n.value, bool):
                return Val(B, "true" if n.value else "false")
            if isinstance(n.value, int):
                return Val(LIT, None, lit=n.value)
            if isinstance(n.value, float):
                return Val(FLT, None, lit=n.value)
            if n.value is None:
                return NONE
            self.err(n, "constant not understood")
        if isinstance(n, ast.Name):
            if n.id in env.locals:
                return env.locals[n.id]
            if n.id in self.mod.modules:
                return Marker("module:" + self.mod.modules[n.id])
            self.err(n, "unknown name")
        if isinstance(n, ast.Attribute):
            if self.is_self_attr(n):
                return self.load_attr(n.attr, env, n)
            base = self.ev(n.value, env)
            if isinstance(base, Marker):
                if base.kind == "module:numpy" and n.attr == "inf":
                    if not self.spec.get("inf"):
                        self.err(n, "np.inf has no counterpart in this model")
                    return Val(S, self.spec["inf"])
                if base.kind == "dev" and n.attr == "xp":
                    return XP
            self.err(n, "attribute access not understood")
        if isinstance(n, ast.UnaryOp):
            if isinstance(n.op, ast.USub):
                v = self.ev(n.operand, env)
                if isinstance(v, Val) and v.ty == LIT:
                    return Val(LIT, None, lit=-v.lit)
                return self.op("neg", [v], env, n)
            if isinstance(n.op, ast.Not):
                return self.op("not", [self.ev(n.operand, env)], env, n)
            self.err(n, "unary operator not understood")
        if isinstance(n, ast.BinOp):
            if isinstance(n.op, ast.Pow):
                e = self.ev(n.right, env)
                base = self.ev(n.left, env)
                if isinstance(e, Val) and e.ty == FLT and e.lit == 0.5:
                    return self.op("sqrt", [base], env, n)
                if isinstance(e, Val) and e.ty == LIT and e.lit == 2:
                    return self.op("sq", [base], env, n)
                self.err(n, "only `** 0.5` and `** 2` are understood")
            names = {ast.Add: "add", ast.Sub: "sub", ast.Mult: "mul", ast.Div: "div"}
            if type(n.op) not in names:
                self.err(n, "binary operator not understood")
            return self.op(names[type(n.op)], [self.ev(n.left, env), self.ev(n.right, env)], env, n)
        if isinstance(n, ast.Compare):
            if len(n.ops) != 1:
                self.err(n, "chained comparison")
            names = {ast.Lt: "lt", ast.LtE: "le", ast.Gt: "gt", ast.GtE: "ge", ast.Eq: "eq"}
            if type(n.ops[0]) not in names:
                self.err(n, "comparison operator not understood here")
            return self.op(names[type(n.ops[0])], [self.ev(n.left, env), self.ev(n.comparators[0], env)], env, n)
        if isinstance(n, ast.BoolOp):
            name = "and" if isinstance(n.op, ast.And) else "or"
            acc = self.ev(n.values[0], env)
            for x in n.values[1:]:
                acc = self.op(name, [acc, self.ev(x, env)], env, n)     # left-nested, as Coq parses `a || b || c`
            return acc
        if isinstance(n, ast.Call):
            return self.call(n, env)
        self.err(n, "expression form not understood")

    def call(self, n, env):
        f = n.func
        if n.keywords:
            self.err(n, "keyword arguments in a call")
        # max(a, b)
        if isinstance(f, ast.Name) and f.id == "max" and "max" not in env.locals:
            if len(n.args) != 2:
                self.err(n, "max with other than two arguments")
            vals = []
            for a in n.args:
                v = self.ev(a, env)
                if isinstance(v, Val) and v.ty == S and not re.fullmatch(r"[A-Za-z0-9_']+", v.term or ""):
                    v = Val(S, self.let(env, "max_arg", v.term, a))
                vals.append(v)
            return self.op("max", vals, env, n)
        if isinstance(f, ast.Attribute):
            # self.A(...), self.proxg(alpha, x)
            if self.is_self_attr(f):
                fn = self.load_attr(f.attr, env, f)
                if not isinstance(fn, Fun):
                    self.err(n, "call of self.%s, which is not a function of the model" % f.attr)
                term = fn.term
                if fn.optional:
                    st = env.opt.get(f.attr)
                    if st is None:
                        self.err(n, "self.%s may be None here (no `is None` test on this path)" % f.attr)
                    if st == "none":
                        self.err(n, "self.%s is None on this path" % f.attr)
                    term = st
                if len(n.args) != len(fn.args):
                    self.err(n, "self.%s takes %d arguments in the model" % (f.attr, len(fn.args)))
                args = []
                for a, ty in zip(n.args, fn.args):
                    v = self.coerce(self.ev(a, env), ty, a)
                    if v.ty != ty:
                        self.err(a, "argument of type %s where self.%s takes %s" % (v.ty, f.attr, ty))
                    args.append(self.term(v, env))
                return Val(fn.ret, "(%s %s)" % (term, " ".join(args)), origin="self." + f.attr)   # assumed: a fresh buffer
            # e.item(), e.copy()
            if f.attr in ("item", "copy") and not n.args:
                v = self.ev(f.value, env)
                if not isinstance(v, Val):
                    self.err(n, ".%s() of a non-value" % f.attr)
                if f.attr == "item":
                    if v.ty not in (S, CPLX):
                        self.err(n, ".item() of a value of type %s" % v.ty)
                    return Val(v.ty, self.term(v, env))                      # 0-d array -> Python float: same value
                if v.ty in SCALARS:
                    self.err(n, ".copy() of a scalar")
                return Val(v.ty, self.term(v, env))                          # identity on values, FRESH buffer
            base = None
            try:
                base = self.ev(f.value, env)
            except TranslationError:
                base = None
            # backend.get_device(e)
            if isinstance(base, Marker) and base.kind == "module:backend" and f.attr == "get_device" and len(n.args) == 1:
                self.ev(n.args[0], env)
                return DEV
            if base is XP:
                if f.attr == "real" and len(n.args) == 1:
                    v = self.ev(n.args[0], env)
                    if not (isinstance(v, Val) and v.ty == CPLX):
                        self.err(n, "xp.real of something other than xp.vdot(a, b)")
                    return Val(S, v.term)
                if f.attr == "vdot" and len(n.args) == 2:
                    r = self.op("vdot", [self.ev(a, env) for a in n.args], env, n)
                    return Val(CPLX, r.term)                                 # complex until xp.real is applied
                if f.attr == "amin" and len(n.args) == 1:
                    a = n.args[0]
                    if (isinstance(a, ast.Call) and isinstance(a.func, ast.Attribute) and a.func.attr == "abs" and len(a.args) == 1
                            and not a.keywords and self.ev(a.func.value, env) is XP):
                        return self.op("aminabs", [self.ev(a.args[0], env)], env, n)
                    self.err(n, "xp.amin of something other than xp.abs(e)")
            # xp.linalg.norm(e)
            if f.attr == "norm" and isinstance(f.value, ast.Attribute) and f.value.attr == "linalg" and len(n.args) == 1:
                if self.ev(f.value.value, env) is XP:
                    return self.op("norm", [self.ev(n.args[0], env)], env, n)
        self.err(n, "call not understood")

    # ---- statements ------------------------------------------------------------------------
    def inline(self, fn, argvals, env, node, what):
        """statements of a call f(args) to be executed in a fresh frame"""
        names = [a.arg for a in fn.args.args]
        if fn.args.vararg or fn.args.kwarg or fn.args.kwonlyargs:
            self.err(node, "%s has a signature that is not understood" % what)
        if len(names) != len(argvals):
            self.err(node, "%s called with %d arguments" % (what, len(argvals)))
        env.frames.append(env.locals)
        env.locals = dict(zip(names, argvals))
        self.sites.append("L%d: %s" % (node.lineno, san(ast.unparse(node))))
        self.sites_file.append(what)
        body = [s for s in fn.body if not (isinstance(s, ast.Expr) and isinstance(s.value, ast.Constant))]
        for s in ast.walk(ast.Module(body=body, type_ignores=[])):
            if isinstance(s, ast.Return):
                self.err(node, "%s contains a return" % what)
        return body + [PopFrame()]

    def simple(self, s, env):
        """a statement that does not fork; returns statements to be executed next (inlined calls)"""
        if isinstance(s, PopFrame):
            env.locals = env.frames.pop()
            self.sites.pop()
            self.sites_file.pop()
            return []
        if isinstance(s, ast.Pass):
            return []
        if isinstance(s, ast.Expr):
            if isinstance(s.value, ast.Constant) and isinstance(s.value.value, str):
                return []
            if isinstance(s.value, ast.Call):
                return self.call_stmt(s.value, env, s)
            self.err(s, "expression statement not understood")
        if isinstance(s, ast.Assign):
            if len(s.targets) != 1:
                self.err(s, "multiple assignment targets")
            t = s.targets[0]
            v = self.ev(s.value, env)
            if isinstance(t, ast.Name):
                if isinstance(v, (Marker, Fun)):
                    if v is NONE:
                        self.err(s, "None assigned to a variable")
                    env.locals[t.id] = v
                else:
                    env.locals[t.id] = self.bind_value(env, t.id, v, s)
                return []
            if self.is_self_attr(t):
                self.store_attr(t.attr, v, env, s)
                return []
            self.err(s, "assignment target not understood")
        if isinstance(s, ast.AugAssign):
            names = {ast.Add: "add", ast.Sub: "sub", ast.Mult: "mul", ast.Div: "div"}
            if type(s.op) not in names:
                self.err(s, "augmented assignment operator not understood")
            t = s.target
            if isinstance(t, ast.Name):
                if t.id not in env.locals or not isinstance(env.locals[t.id], Val):
                    self.err(s, "in-place update of an unknown variable")
                cur = env.locals[t.id]
                new = self.op(names[type(s.op)], [cur, self.ev(s.value, env)], env, s)
                env.locals[t.id] = self.update_inplace(cur, new, env, s, t.id)
                return []
            if self.is_self_attr(t):
                a = self.spec["attrs"].get(t.attr)
                if not isinstance(a, (Field, Scratch)):
                    self.err(s, "in-place update of self.%s, which is not a state attribute of the model" % t.attr)
                cur = self.load_attr(t.attr, env, t)
                new = self.op(names[type(s.op)], [cur, self.ev(s.value, env)], env, s)
                env.fields[t.attr] = self.update_inplace(cur, new, env, s, t.attr)
                return []
            self.err(s, "augmented assignment target not understood")
        self.err(s, "statement form not understood (%s)" % type(s).__name__)

    def call_stmt(self, c, env, s):
        f = c.func
        if c.keywords and not (isinstance(f, ast.Attribute) and f.attr == "__init__"):
            self.err(s, "keyword arguments in a call statement")
        if isinstance(f, ast.Attribute):
            base = None
            if isinstance(f.value, ast.Name) and f.value.id in self.mod.modules and f.value.id not in env.locals:
                base = self.mod.modules[f.value.id]
            # util.axpy / util.xpay: inlined from the text of util.py
            if base == "util" and f.attr in ("axpy", "xpay"):
                fn = self.mod.util_fns.get(f.attr)
                if fn is None:
                    self.err(s, "util.%s not found in util.py" % f.attr)
                args = [self.ev(a, env) for a in c.args]
                if not (args and isinstance(args[0], Val) and args[0].buf is not None):
                    self.err(s, "first argument of util.%s is not an array variable" % f.attr)
                return self.inline(fn, args, env, s, "util." + f.attr)
            # backend.copyto(dst, src)
            if base == "backend" and f.attr == "copyto" and len(c.args) == 2:
                dst = self.ev(c.args[0], env)
                src = self.ev(c.args[1], env)
                if not (isinstance(dst, Val) and dst.buf is not None):
                    self.err(s, "destination of backend.copyto is not an array variable")
                if not isinstance(src, Val) or src.ty != dst.ty:
                    self.err(s, "backend.copyto between different kinds of values")
                hint = c.args[0].attr if isinstance(c.args[0], ast.Attribute) else getattr(c.args[0], "id", "buf")
                self.may_write(dst.buf, s)
                env.store[dst.buf] = self.let(env, self.bufname.get(dst.buf, hint), self.term(src, env), s)
                return []
            # super().__init__(...)
            if (f.attr == "__init__" and isinstance(f.value, ast.Call) and isinstance(f.value.func, ast.Name)
                    and f.value.func.id == "super" and not f.value.args and self.spec["kind"] == "init" and not env.frames):
                basecls = self.mod.base_of(self.spec["cls"])
                fn = self.mod.method(basecls, "__init__")
                if fn is None:
                    self.err(s, "base class has no __init__")
                params = [a.arg for a in fn.args.args][1:]
                given = dict(zip(params, c.args))
                for kw in c.keywords:
                    if kw.arg is None or kw.arg in given or kw.arg not in params:
                        self.err(s, "keyword of super().__init__ not understood")
                    given[kw.arg] = kw.value
                if set(given) != set(params):
                    self.err(s, "super().__init__ relies on default arguments")
                vals = [Marker("self")] + [self.ev(given[p], env) for p in params]
                return self.inline(fn, vals, env, s, basecls + ".__init__")
        self.err(s, "call statement not understood")

    # ---- control flow ----------------------------------------------------------------------
    def cond(self, test, env):
        """-> ('static', bool) | ('bool', term) | ('opt', attr, then_is_none)"""
        if isinstance(test, ast.Compare) and len(test.ops) == 1 and isinstance(test.ops[0], (ast.Is, ast.IsNot)):
            rhs = test.comparators[0]
            if not (isinstance(rhs, ast.Constant) and rhs.value is None and self.is_self_attr(test.left)):
                self.err(test, "`is` test other than `self.attr is [not] None`")
            fn = self.load_attr(test.left.attr, env, test.left)
            if not (isinstance(fn, Fun) and fn.optional):
                self.err(test, "self.%s is not an optional function of the model" % test.left.attr)
            is_none = isinstance(test.ops[0], ast.Is)
            st = env.opt.get(test.left.attr)
            if st is not None:
                return ("static", (st == "none") == is_none)
            return ("opt", test.left.attr, is_none)
        v = self.ev(test, env)
        if not (isinstance(v, Val) and v.ty == B):
            self.err(test, "condition is not a boolean of the model")
        t = self.term(v, env)
        if t in ("true", "false"):
            return ("static", t == "true")
        if t in env.facts:
            return ("static", env.facts[t])
        return ("bool", t)

    def device_ctx(self, item, env):
        if item.optional_vars is not None:
            self.err(item.context_expr, "`with ... as ...`")
        if self.ev(item.context_expr, env) is not DEV:
            self.err(item.context_expr, "`with` on something that is not a device")

    @staticmethod
    def indent(lines):
        return ["  " + x for x in lines]

    def run(self, stmts, env):
        stmts = list(stmts)
        while stmts:
            s = stmts.pop(0)
            if isinstance(s, ast.With):
                for it in s.items:
                    self.device_ctx(it, env)      # device contexts are no-ops of the model
                stmts = list(s.body) + stmts
                continue
            if isinstance(s, ast.If):
                c = self.cond(s.test, env)
                cm = "   (* L%d: if %s *)" % (s.lineno, san(ast.unparse(s.test)))
                if c[0] == "static":
                    stmts = list(s.body if c[1] else s.orelse) + stmts
                    continue
                e1, e2 = env.fork(), env.fork()
                if c[0] == "bool":
                    e1.facts[c[1]] = True
                    e2.facts[c[1]] = False
                    return env.lines + ["if %s then (%s" % (c[1], cm)] + self.indent(self.run(list(s.body) + stmts, e1)) \
                        + [") else ("] + self.indent(self.run(list(s.orelse) + stmts, e2)) + [")"]
                attr, then_is_none = c[1], c[2]
                fn = env.params[attr]
                bound = self.fresh(attr + "_f")
                e_none, e_some = (e1, e2) if then_is_none else (e2, e1)
                e_none.opt[attr] = "none"
                e_some.opt[attr] = bound
                b_none = list(s.body if then_is_none else s.orelse) + stmts
                b_some = list(s.orelse if then_is_none else s.body) + stmts
                return env.lines + ["match %s with%s" % (fn.term, cm), "| None => ("] + self.indent(self.run(b_none, e_none)) \
                    + [")", "| Some %s => (" % bound] + self.indent(self.run(b_some, e_some)) + [")", "end"]
            if isinstance(s, ast.Return):
                if env.frames:
                    self.err(s, "return inside an inlined call")
                return env.lines + self.leaf(env, s)
            stmts = self.simple(s, env) + stmts
        return env.lines + self.leaf(env, None)

    def leaf(self, env, ret):
        kind = self.spec["kind"]
        if kind == "done":
            if ret is None or ret.value is None:
                raise TranslationError("%s.%s: a path ends without returning a value" % (self.spec["cls"], self.spec["method"]))
            v = self.ev(ret.value, env)
            if not (isinstance(v, Val) and v.ty == B):
                self.err(ret, "returned value is not a boolean of the model")
            return [self.term(v, env)]
        if ret is not None and ret.value is not None:
            self.err(ret, "a value is returned from a state-changing method")
        for attr, (buf, t0) in self.const_bufs.items():     # e.g. `self.r = b; self.r -= ...` would write into the caller's b
            if env.store[buf] != t0:
                raise TranslationError("%s.%s: the array self.%s / argument %s, a constant of the model, is modified in place"
                                       % (self.spec["cls"], self.spec["method"], attr, attr))
        self.alias_facts(env)
        args = []
        for attr, ty, proj in self.spec["record"]["fields"]:
            if attr in env.fields:
                args.append(self.term(env.fields[attr], env))
            elif attr in self.spec.get("undef", {}):
                args.append("undef_" + attr)      # the attribute does not exist in Python on this path
            else:
                raise TranslationError("%s.%s: attribute self.%s of the model is never assigned on some path"
                                       % (self.spec["cls"], self.spec["method"], attr))
        return ["%s %s" % (self.spec["record"]["ctor"], " ".join(args))]

    def alias_facts(self, env):
        """Aliasing facts the hand model relies on, checked on every path (they are invisible in the VALUES):
           _update: an array attribute is still the array it was at entry (only in-place updates; alg.x stays the caller's x);
           __init__: the attributes listed under `private` (CG: p when max_iter > 1, GM: z, PDHG: x_ext) are arrays created in
           this method by .copy() / arithmetic -- not another attribute, not an argument, not the result of a user function."""
        sp = self.spec
        if sp["kind"] == "update":
            for attr, buf in self.entry_bufs.items():
                v = env.fields.get(attr)
                if v is None or v.buf != buf:
                    raise TranslationError("%s.%s: self.%s is rebound to another array (the model and the in-place contract assume "
                                           "array attributes are only updated in place)" % (sp["cls"], sp["method"], attr))
        for attr, cond in sp.get("private", {}).items():
            if attr not in env.fields or (cond is not None and env.facts.get(cond) is False):
                continue
            buf = env.fields[attr].buf
            shared = [a for a, v in env.fields.items() if a != attr and isinstance(v, Val) and v.buf == buf]
            shared += ["argument " + a for a, b in self.arg_bufs.items() if b == buf]
            shared += [a for a, (b, _) in self.const_bufs.items() if b == buf]
            if buf in self.callbufs:
                shared.append("the result of " + self.callbufs[buf])
            if shared:
                raise TranslationError("%s.%s: self.%s must be a private copy%s but is the same array as %s"
                                       % (sp["cls"], sp["method"], attr, (" when %s" % cond) if cond else "", ", ".join(shared)))

    # ---- entry -----------------------------------------------------------------------------
    def translate(self):
        sp = self.spec
        fn = self.mod.method(sp["cls"], sp["method"])
        if fn is None:
            raise TranslationError("%s.%s: method not found" % (sp["cls"], sp["method"]))
        env = Env()
        for attr, a in sp["attrs"].items():
            if isinstance(a, Param):
                w = a.what
                if isinstance(w, Val) and w.ty not in SCALARS:
                    env.params[attr] = Val(w.ty, None, buf=self.newbuf(env, w.term, attr))
                    self.const_bufs[attr] = (env.params[attr].buf, w.term)
                else:
                    env.params[attr] = w
        env.dev_attrs = set(self.mod.device_attrs(sp["cls"]))
        names = [a.arg for a in fn.args.args]
        if not names or names[0] != "self" or fn.args.vararg or fn.args.kwarg or fn.args.kwonlyargs:
            raise TranslationError("%s.%s: signature not understood" % (sp["cls"], sp["method"]))
        if sp["kind"] == "init":
            for nm in names[1:]:
                if nm not in sp["init_args"]:
                    raise TranslationError("%s.__init__: constructor argument `%s` is unknown to the model" % (sp["cls"], nm))
                w = sp["init_args"][nm]
                if isinstance(w, str):                      # the argument IS the constructor constant self.<w>
                    env.locals[nm] = env.params[w]
                elif isinstance(w, Val) and w.ty not in SCALARS:
                    env.locals[nm] = Val(w.ty, None, buf=self.newbuf(env, w.term, nm))
                    self.arg_bufs[nm] = env.locals[nm].buf
                else:
                    env.locals[nm] = w
            env.dev_attrs = set()
        else:
            if len(names) != 1:
                raise TranslationError("%s.%s takes arguments" % (sp["cls"], sp["method"]))
            for attr, ty, proj in sp["record"]["fields"]:
                if attr is None:
                    continue
                t = proj.format("st")
                env.fields[attr] = Val(ty, t) if ty in SCALARS else Val(ty, None, buf=self.newbuf(env, t, attr))
                if ty not in SCALARS:
                    self.entry_bufs[attr] = env.fields[attr].buf
        lines = self.run(fn.body, env)
        return lines


# ---------------------------------------------------------------------------------------------
# parsed sources and class-level checks
# ---------------------------------------------------------------------------------------------
class Module:
    def __init__(self, src, util_src):
        self.src = src
        self.tree = ast.parse(src)
        self.classes = {c.name: c for c in self.tree.body if isinstance(c, ast.ClassDef)}
        # module-level imports the translation relies on
        self.modules = {}
        for s in self.tree.body:
            if isinstance(s, ast.Import):
                for a in s.names:
                    if a.name == "numpy":
                        self.modules[a.asname or "numpy"] = "numpy"
            if isinstance(s, ast.ImportFrom) and s.module == "sigpy":
                for a in s.names:
                    if a.name in ("backend", "util"):
                        self.modules[a.asname or a.name] = a.name
        for need in ("numpy", "backend", "util"):
            if need not in self.modules.values():
                raise TranslationError("alg.py no longer imports %s the way the translator assumes" % need)
        for s in self.tree.body:                      # nothing at module level may rebind these names
            if isinstance(s, (ast.FunctionDef, ast.ClassDef)) and s.name in self.modules:
                raise TranslationError("module-level name %s is rebound" % s.name)
            if isinstance(s, ast.Assign):
                for t in s.targets:
                    if isinstance(t, ast.Name) and (t.id in self.modules or t.id == "max"):
                        raise TranslationError("module-level name %s is rebound" % t.id)
        ut = ast.parse(util_src)
        self.util_fns = {f.name: f for f in ut.body if isinstance(f, ast.FunctionDef) and f.name in ("axpy", "xpay")}
        for f in self.util_fns.values():
            if f.decorator_list:
                raise TranslationError("util.%s is decorated" % f.name)

    def method(self, cls, name):
        if cls not in self.classes:
            raise TranslationError("class %s not found in alg.py" % cls)
        found = [m for m in self.classes[cls].body if isinstance(m, ast.FunctionDef) and m.name == name]
        if len(found) > 1:
            raise TranslationError("%s.%s is defined twice" % (cls, name))
        if found and found[0].decorator_list:
            raise TranslationError("%s.%s is decorated" % (cls, name))
        return found[0] if found else None

    def base_of(self, cls):
        b = self.classes[cls].bases
        if len(b) != 1 or not isinstance(b[0], ast.Name):
            raise TranslationError("class %s: base classes not understood" % cls)
        return b[0].id

    def device_attrs(self, cls):
        out = set()
        fn = self.method(cls, "__init__")
        if fn is None:
            return out
        for s in ast.walk(fn):
            if isinstance(s, ast.Assign) and len(s.targets) == 1 and isinstance(s.targets[0], ast.Attribute) \
                    and isinstance(s.targets[0].value, ast.Name) and s.targets[0].value.id == "self" \
                    and isinstance(s.value, ast.Call) and isinstance(s.value.func, ast.Attribute) \
                    and s.value.func.attr == "get_device" and isinstance(s.value.func.value, ast.Name) \
                    and self.modules.get(s.value.func.value.id) == "backend":
                out.add(s.targets[0].attr)
        return out

    def check_class(self, cls, param_attrs, driver_base="Alg"):
        """facts about the whole class the per-method translation relies on"""
        c = self.classes.get(cls)
        if c is None:
            raise TranslationError("class %s not found in alg.py" % cls)
        if c.decorator_list or c.keywords:
            raise TranslationError("class %s is decorated / has a metaclass" % cls)
        if self.base_of(cls) != driver_base:
            raise TranslationError("class %s no longer derives from %s alone" % (cls, driver_base))
        for m in c.body:
            if isinstance(m, ast.FunctionDef) and m.name in ("update", "done", "__getattr__", "__setattr__", "__getattribute__"):
                raise TranslationError("class %s overrides %s (the model composes Alg.update / Alg.done with _update / _done)" % (cls, m.name))
            if isinstance(m, ast.Assign):
                raise TranslationError("class %s has class-level attributes" % cls)
        # constructor constants (self.A, self.alpha ...) are written only by `self.X = X` in __init__ (checked there)
        for m in c.body:
            if not isinstance(m, ast.FunctionDef):
                continue
            for s in ast.walk(m):
                tg = []
                if isinstance(s, ast.Assign):
                    tg = list(s.targets)
                elif isinstance(s, (ast.AugAssign, ast.AnnAssign)):
                    tg = [s.target]
                elif isinstance(s, ast.Delete):
                    tg = list(s.targets)
                elif isinstance(s, ast.Call) and isinstance(s.func, ast.Attribute) and s.func.attr in ("axpy", "xpay", "copyto") and s.args:
                    tg = [s.args[0]]
                elif isinstance(s, ast.Call) and isinstance(s.func, ast.Name) and s.func.id in ("setattr", "delattr"):
                    raise TranslationError("%s.%s uses %s" % (cls, m.name, s.func.id))
                flat = []
                for t in tg:
                    flat += list(t.elts) if isinstance(t, (ast.Tuple, ast.List)) else [t]
                for t in flat:
                    while isinstance(t, (ast.Subscript, ast.Starred)):
                        t = t.value
                    if isinstance(t, ast.Attribute) and isinstance(t.value, ast.Name) and t.value.id == "self" and t.attr in param_attrs:
                        if m.name == "__init__" and isinstance(s, ast.Assign):
                            continue
                        raise TranslationError("%s.%s modifies self.%s, a constructor constant of the model (line %d)"
                                               % (cls, m.name, t.attr, s.lineno))


# ---------------------------------------------------------------------------------------------
# the base-class driver: Alg.update / Alg.done over an abstract AlgClass
# ---------------------------------------------------------------------------------------------
def translate_driver(mod):
    out = []
    upd = mod.method("Alg", "update")
    don = mod.method("Alg", "done")
    if upd is None or don is None:
        raise TranslationError("Alg.update / Alg.done not found")
    if mod.classes["Alg"].bases and not (len(mod.classes["Alg"].bases) == 1 and getattr(mod.classes["Alg"].bases[0], "id", "") == "object"):
        raise TranslationError("class Alg has a base class")

    def body(fn):
        if [a.arg for a in fn.args.args] != ["self"] or fn.decorator_list:
            raise TranslationError("Alg.%s: signature not understood" % fn.name)
        return [s for s in fn.body if not (isinstance(s, ast.Expr) and isinstance(s.value, ast.Constant) and isinstance(s.value.value, str))]

    def is_self_call(e, name):
        return (isinstance(e, ast.Call) and not e.args and not e.keywords and isinstance(e.func, ast.Attribute)
                and e.func.attr == name and isinstance(e.func.value, ast.Name) and e.func.value.id == "self")

    def zexpr(e, st, ln):
        if isinstance(e, ast.Constant) and isinstance(e.value, int) and not isinstance(e.value, bool):
            return str(e.value) if e.value >= 0 else "(%d)" % e.value
        if isinstance(e, ast.Attribute) and isinstance(e.value, ast.Name) and e.value.id == "self" and e.attr in ("iter", "max_iter"):
            return "(get_%s C %s)" % (e.attr, st)
        if isinstance(e, ast.BinOp) and isinstance(e.op, (ast.Add, ast.Sub)):
            return "(%s %s %s)" % (zexpr(e.left, st, ln), "+" if isinstance(e.op, ast.Add) else "-", zexpr(e.right, st, ln))
        raise TranslationError("Alg.update, alg.py line %d: integer expression not understood: `%s`" % (ln, ast.unparse(e)))

    lines, st, k = [], "st", 0
    for s in body(upd):
        k += 1
        new = "st_%d" % k
        if isinstance(s, ast.Expr) and is_self_call(s.value, "_update"):
            lines.append("let %s := upd_ C %s in   (* L%d: %s *)" % (new, st, s.lineno, san(ast.unparse(s))))
        elif isinstance(s, ast.AugAssign) and isinstance(s.op, (ast.Add, ast.Sub)) and isinstance(s.target, ast.Attribute) \
                and isinstance(s.target.value, ast.Name) and s.target.value.id == "self" and s.target.attr == "iter":
            lines.append("let %s := set_iter C (get_iter C %s %s %s) %s in   (* L%d: %s *)"
                         % (new, st, "+" if isinstance(s.op, ast.Add) else "-", zexpr(s.value, st, s.lineno), st, s.lineno, san(ast.unparse(s))))
        elif isinstance(s, ast.Assign) and len(s.targets) == 1 and isinstance(s.targets[0], ast.Attribute) \
                and isinstance(s.targets[0].value, ast.Name) and s.targets[0].value.id == "self" and s.targets[0].attr == "iter":
            lines.append("let %s := set_iter C %s %s in   (* L%d: %s *)" % (new, zexpr(s.value, st, s.lineno), st, s.lineno, san(ast.unparse(s))))
        else:
            raise TranslationError("Alg.update, alg.py line %d: statement not understood: `%s`" % (s.lineno, " ".join(ast.unparse(s).split())[:120]))
        st = new
    out.append("Definition gen_alg_update {St : Type} (C : AlgClass St) (st : St) : St :=\n  " + "\n  ".join(lines + [st]) + ".")
    out.append("Lemma gen_alg_update_ok : forall (St : Type) (C : AlgClass St) (st : St), gen_alg_update C st = update C st.\n"
               "Proof. intros. unfold gen_alg_update, update. tie. Qed.\n")
    b = body(don)
    if not (len(b) == 1 and isinstance(b[0], ast.Return) and b[0].value is not None and is_self_call(b[0].value, "_done")):
        raise TranslationError("Alg.done, alg.py line %d: body is not `return self._done()`" % don.lineno)
    out.append("Definition gen_alg_done {St : Type} (C : AlgClass St) (st : St) : bool :=\n  done_ C st.   (* L%d: %s *)"
               % (b[0].lineno, san(ast.unparse(b[0]))))
    out.append("Lemma gen_alg_done_ok : forall (St : Type) (C : AlgClass St) (st : St), gen_alg_done C st = done C st.\n"
               "Proof. intros. unfold gen_alg_done, done. tie. Qed.\n")
    return out


# ---------------------------------------------------------------------------------------------
# specifications: which method is compared with which hand-model term
# ---------------------------------------------------------------------------------------------
def rec(ctor, proj_fmt, fields):
    """fields: (python attribute | None, type, projection name)"""
    return {"ctor": ctor, "fields": [(a, t, proj_fmt % p) for a, t, p in fields]}


VE, SE = "Vec E", "Sc E"

CG_REC = rec("mkCG", "(%s {0})", [("x", V, "cg_x"), ("r", V, "cg_r"), ("p", V, "cg_p"), ("rzold", S, "cg_rzold"),
                                  ("resid", S, "cg_resid"), ("iter", Z, "cg_iter"), ("not_positive_definite", B, "cg_npd"),
                                  ("max_iter", Z, "cg_max_iter"), ("tol", S, "cg_tol")])
PM_REC = rec("mkPM", "(%s {0})", [("x", V, "pm_x"), ("max_eig", S, "pm_max_eig"), ("iter", Z, "pm_iter"), ("max_iter", Z, "pm_max_iter")])
GM_REC = rec("mkGM", "(%s {0})", [("x", V, "gm_x"), ("z", V, "gm_z"), ("t", S, "gm_t"), ("resid", S, "gm_resid"),
                                  ("iter", Z, "gm_iter"), ("max_iter", Z, "gm_max_iter"), ("tol", S, "gm_tol")])
PD_FIELDS = [("x", V, "x"), ("u", U, "u"), ("x_ext", V, "x_ext"), ("tau", S, "tau"), ("sigma", S, "sigma"),
             ("tau_min", S, "tau_min"), ("sigma_min", S, "sigma_min"), ("resid", S, "resid"), ("iter", Z, "iter"),
             ("max_iter", Z, "max_iter"), ("tol", S, "tol")]
PDHG_REC = rec("mkPDHG E U", "(pd_%s E U {0})", PD_FIELDS)
PDHGA_REC = rec("mkPDHGA E U", "(pa_%s E U {0})",
                [(a, {"tau": V, "sigma": U}.get(a, t), p) for a, t, p in PD_FIELDS])
NM_REC = rec("mkNM", "(%s {0})", [("x", V, "nm_x"), ("lamda2", S, "nm_lamda2"), ("residual", S, "nm_residual"), ("iter", Z, "nm_iter"),
                                  ("max_iter", Z, "nm_max_iter"), ("tol", S, "nm_tol"), (None, B, "nm_raised")])
GS_REC = rec("mkGS", "(%s {0})", [("x", V, "gs_x"), ("residual", S, "gs_residual"), ("iter", Z, "gs_iter"),
                                  ("max_iter", Z, "gs_max_iter"), ("tol", S, "gs_tol")])


def fields_of(record):
    return {a: Field(t, p) for a, t, p in record["fields"] if a is not None}


def specs_alg():
    out = []

    def add(group, cls, binders, record, params, st_type, methods, ops=IPOPS, lit=IPLIT, extra_attrs=None):
        attrs = fields_of(record)
        for k, w in params.items():
            attrs[k] = Param(w)
        attrs.update(extra_attrs or {})
        for m in methods:
            sp = dict(group=group, cls=cls, binders=list(binders), record=record, attrs=attrs, st_type=st_type, ops=ops, lit=lit,
                      param_attrs=set(params), inf=None, undef={}, lemma_inst={}, lemma_forall=[], extra_binders=[])
            sp.update(m)
            out.append(sp)

    # ---- ConjugateGradient -----------------------------------------------------------------
    cgp = {"A": Fun("A", (V,), V), "b": Val(V, "b"), "P": Fun("P", (V,), V, optional=True)}
    cgb = [("E", "IPOps"), ("A", "Vec E -> Vec E"), ("b", VE), ("P", "option (Vec E -> Vec E)")]
    add("ConjugateGradient", "ConjugateGradient", cgb, CG_REC, cgp, "cg_state E", [
        dict(gen="gen_cg_init", method="__init__", kind="init",
             init_args={"A": "A", "b": "b", "P": "P", "x": Val(V, "x"), "max_iter": Val(Z, "max_iter"), "tol": Val(S, "tol")},
             arg_binders=[("x", VE), ("max_iter", "Z"), ("tol", SE)],
             private={"p": "(1 <? max_iter)"},      # self.p = z.copy() if max_iter > 1 else z
             hand="cg_init E A b P x max_iter tol", unfold=["cg_init", "cg_applyP"]),
        dict(gen="gen_cg__update", method="_update", kind="update", hand="cg__update E A P st", unfold=["cg__update", "cg_applyP"]),
        dict(gen="gen_cg__done", method="_done", kind="done", hand="cg__done E st", unfold=["cg__done"]),
    ], extra_attrs={"alpha": Scratch(S)})

    # ---- PowerMethod (the hand model covers norm_func = None) ----------------------------------
    pmp = {"A": Fun("A", (V,), V), "norm_func": Fun("norm_func", (V,), S, optional=True)}
    pmb = [("E", "IPOps"), ("A", "Vec E -> Vec E"), ("norm_func", "option (Vec E -> Sc E)")]
    add("PowerMethod", "PowerMethod", pmb, PM_REC, pmp, "pm_state E", [
        dict(gen="gen_pm_init", method="__init__", kind="init", inf="inf",
             init_args={"A": "A", "norm_func": "norm_func", "x": Val(V, "x"), "max_iter": Val(Z, "max_iter")},
             arg_binders=[("x", VE), ("inf", SE), ("max_iter", "Z")],
             hand="pm_init E x inf max_iter", unfold=["pm_init"]),
        dict(gen="gen_pm__update", method="_update", kind="update", hand="pm__update E A st", unfold=["pm__update"],
             lemma_inst={"norm_func": "None"}),
        dict(gen="gen_pm__done", method="_done", kind="done", hand="pm__done E st", unfold=["pm__done"]),
    ])

    # ---- GradientMethod ----------------------------------------------------------------------
    gmp = {"gradf": Fun("gradf", (V,), V), "alpha": Val(S, "alpha"), "proxg": Fun("proxg", (S, V), V, optional=True),
           "accelerate": Val(B, "accelerate")}
    gmb = [("E", "IPOps"), ("gradf", "Vec E -> Vec E"), ("alpha", SE), ("proxg", "option (Sc E -> Vec E -> Vec E)"), ("accelerate", "bool")]
    add("GradientMethod", "GradientMethod", gmb, GM_REC, gmp, "gm_state E", [
        dict(gen="gen_gm_init", method="__init__", kind="init", inf="inf",
             init_args={"gradf": "gradf", "alpha": "alpha", "proxg": "proxg", "accelerate": "accelerate",
                        "x": Val(V, "x"), "max_iter": Val(Z, "max_iter"), "tol": Val(S, "tol")},
             arg_binders=[("x", VE), ("inf", SE), ("max_iter", "Z"), ("tol", SE)],
             # z and t do not exist in Python when accelerate is False; the model carries z = x, t = 1
             undef={"z": VE, "t": SE}, lemma_inst={"undef_z": "x", "undef_t": "(@s1 E)"},
             private={"z": None}, hand="gm_init E x inf max_iter tol", unfold=["gm_init"]),
        dict(gen="gen_gm__update", method="_update", kind="update", hand="gm__update E gradf alpha proxg accelerate st",
             unfold=["gm__update", "gm_T"]),
        dict(gen="gen_gm__done", method="_done", kind="done", hand="gm__done E st", unfold=["gm__done"]),
    ])

    # ---- PrimalDualHybridGradient, scalar step sizes (model/Alg.v) ------------------------------
    pdb_common = [("E", "IPOps"), ("U", "Type"), ("uadd", "U -> U -> U"), ("usub", "U -> U -> U"), ("uscale", "Sc E -> U -> U"),
                  ("udivs", "U -> Sc E -> U"), ("udot", "U -> U -> Sc E")]
    pdb_tail = [("theta0", SE), ("gamma_primal", SE), ("gamma_dual", SE), ("sgt0", "Sc E -> bool"), ("seq0", "Sc E -> bool")]
    pdp = {"A": Fun("A", (V,), U), "AH": Fun("AH", (U,), V), "proxfc": Fun("proxfc", (S, U), U), "proxg": Fun("proxg", (S, V), V),
           "theta": Val(S, "theta0"), "gamma_primal": Val(S, "gamma_primal"), "gamma_dual": Val(S, "gamma_dual")}
    pdb = pdb_common + [("A", "Vec E -> U"), ("AH", "U -> Vec E"), ("proxfc", "Sc E -> U -> U"), ("proxg", "Sc E -> Vec E -> Vec E")] + pdb_tail
    pd_init_args = {"proxfc": "proxfc", "proxg": "proxg", "A": "A", "AH": "AH", "theta": "theta", "gamma_primal": "gamma_primal",
                    "gamma_dual": "gamma_dual", "x": Val(V, "x"), "u": Val(U, "u"), "max_iter": Val(Z, "max_iter"), "tol": Val(S, "tol")}
    hand_ops = "E U uadd usub uscale udivs udot"
    add("PrimalDualHybridGradient (scalar step sizes)", "PrimalDualHybridGradient", pdb, PDHG_REC, pdp, "pdhg_state E U", [
        dict(gen="gen_pdhg_init", method="__init__", kind="init", inf="inf",
             init_args=dict(pd_init_args, tau=Val(S, "tau"), sigma=Val(S, "sigma")),
             arg_binders=[("x", VE), ("u", "U"), ("tau", SE), ("sigma", SE), ("inf", SE), ("max_iter", "Z"), ("tol", SE)],
             # the model assumes positive scalar steps (amin(abs(tau)) = tau) and carries tau_min / sigma_min always
             extra_binders=[("aminabs_s", "Sc E -> Sc E")], undef={"tau_min": SE, "sigma_min": SE},
             lemma_inst={"aminabs_s": "(fun s => s)", "undef_tau_min": "tau", "undef_sigma_min": "sigma"},
             private={"x_ext": None}, hand="pdhg_init E U x u tau sigma inf max_iter tol", unfold=["pdhg_init"]),
        dict(gen="gen_pdhg__update", method="_update", kind="update",
             hand="pdhg__update %s A AH proxfc proxg theta0 gamma_primal gamma_dual sgt0 seq0 st" % hand_ops,
             unfold=["pdhg__update"]),
        dict(gen="gen_pdhg__done", method="_done", kind="done", hand="pdhg__done E U st", unfold=["pdhg__done"]),
    ], ops=PDHG_OPS)

    # ---- PrimalDualHybridGradient, array step sizes (model/Alg2.v) ------------------------------
    arr = [("xmul", "Vec E -> Vec E -> Vec E"), ("xdiv", "Vec E -> Vec E -> Vec E"), ("xsqrt", "Vec E -> Vec E"),
           ("umul", "U -> U -> U"), ("udiv", "U -> U -> U"), ("usqrt", "U -> U")]
    pap = dict(pdp, proxfc=Fun("proxfc", (U, U), U), proxg=Fun("proxg", (V, V), V))
    pab = pdb_common + arr + [("A", "Vec E -> U"), ("AH", "U -> Vec E"), ("proxfc", "U -> U -> U"), ("proxg", "Vec E -> Vec E -> Vec E")] + pdb_tail
    amin = [("aminabs_x", "Vec E -> Sc E"), ("aminabs_u", "U -> Sc E")]
    add("PrimalDualHybridGradient (array step sizes)", "PrimalDualHybridGradient", pab, PDHGA_REC, pap, "pdhga_state E U", [
        dict(gen="gen_pdhga_init", method="__init__", kind="init", inf="inf",
             init_args=dict(pd_init_args, tau=Val(V, "tau"), sigma=Val(U, "sigma")),
             arg_binders=[("x", VE), ("u", "U"), ("tau", VE), ("sigma", "U"), ("inf", SE), ("max_iter", "Z"), ("tol", SE)],
             # the model takes amin(abs(tau)), amin(abs(sigma)) as inputs and carries them always
             extra_binders=amin, undef={"tau_min": SE, "sigma_min": SE}, lemma_forall=[("tau_min", SE), ("sigma_min", SE)],
             lemma_inst={"aminabs_x": "(fun _ => tau_min)", "aminabs_u": "(fun _ => sigma_min)",
                         "undef_tau_min": "tau_min", "undef_sigma_min": "sigma_min"},
             private={"x_ext": None}, hand="pdhga_init E U x u tau sigma tau_min sigma_min inf max_iter tol", unfold=["pdhga_init"]),
        dict(gen="gen_pdhga__update", method="_update", kind="update",
             hand="pdhga__update %s xmul xdiv xsqrt umul udiv usqrt A AH proxfc proxg theta0 gamma_primal gamma_dual sgt0 seq0 st" % hand_ops,
             unfold=["pdhga__update"]),
        dict(gen="gen_pdhga__done", method="_done", kind="done", hand="pdhga__done E U st", unfold=["pdhga__done"]),
    ], ops=PDHGA_OPS)

    # ---- stop rules of NewtonsMethod and GerchbergSaxton ----------------------------------------
    add("NewtonsMethod (stop rule)", "NewtonsMethod", [("E", "IPOps")], NM_REC, {}, "nm_state E", [
        dict(gen="gen_nm__done", method="_done", kind="done", hand="nm__done E st", unfold=["nm__done"]),
    ])
    add("GerchbergSaxton (stop rule)", "GerchbergSaxton", [("E", "IPOps")], GS_REC, {}, "gs_state E", [
        dict(gen="gen_gs__done", method="_done", kind="done", hand="gs__done E st", unfold=["gs__done"]),
    ])
    return out


PGM_REC = rec("mkGM", "(%s {0})", [("x", V, "gm_x"), ("z", V, "gm_z"), ("t", S, "gm_t"), ("resid", S, "gm_resid")])
PPD_REC = rec("mkPD", "(%s {0})", [("x", V, "pd_x"), ("u", U, "pd_u"), ("x_ext", V, "pd_xext"), ("tau", TX, "pd_tau"), ("sigma", TU, "pd_sigma"),
                                   ("tau_min", S, "pd_tau_min"), ("sigma_min", S, "pd_sigma_min"), ("resid", S, "pd_resid")])


def specs_pg():
    """model/ProxGrad.v (C13): states without the counter; tol / max_iter / iter are not attributes of that model"""
    out = []
    ign = {"tol": Ignore(), "max_iter": Ignore(), "iter": Ignore()}

    def add(group, cls, binders, record, params, st_type, methods, ops):
        attrs = fields_of(record)
        for k, w in params.items():
            attrs[k] = Param(w)
        attrs.update(ign)
        for m in methods:
            sp = dict(group=group, cls=cls, binders=list(binders), record=record, attrs=attrs, st_type=st_type, ops=ops, lit=PGLIT,
                      param_attrs=set(params), inf="r0", undef={}, lemma_inst={}, lemma_forall=[], extra_binders=[])
            sp.update(m)
            out.append(sp)

    gmb = [("S", "SOps"), ("V", "Type"), ("vadd", "V -> V -> V"), ("vsub", "V -> V -> V"), ("vscale", "S -> V -> V"), ("vnorm", "V -> S"),
           ("gradf", "V -> V"), ("accelerate", "bool"), ("alpha", "S"), ("proxg", "option (S -> V -> V)")]
    gmp = {"gradf": Fun("gradf", (V,), V), "alpha": Val(S, "alpha"), "proxg": Fun("proxg", (S, V), V, optional=True),
           "accelerate": Val(B, "accelerate")}
    add("GradientMethod", "GradientMethod", gmb, PGM_REC, gmp, "gm_state S V", [
        dict(gen="gen_pg_gm_init", method="__init__", kind="init",
             init_args={"gradf": "gradf", "alpha": "alpha", "proxg": "proxg", "accelerate": "accelerate", "x": Val(V, "x"),
                        "max_iter": Val(Z, "0"), "tol": Val(S, "r0")},      # stored in attributes this model ignores
             arg_binders=[("x", "V"), ("r0", "S")], undef={"z": "V", "t": "S"}, lemma_inst={"undef_z": "x", "undef_t": "(@s1 S)"},
             private={"z": None}, hand="gm_init S V x r0", unfold=["gm_init"]),
        dict(gen="gen_pg_gm_step", method="_update", kind="update",
             hand="gm_step S V vadd vsub vscale vnorm gradf accelerate alpha proxg st", unfold=["gm_step", "t_next"]),
    ], PG_GM_OPS)

    pdb = [("S", "SOps"), ("X", "Type"), ("U", "Type"), ("TX", "Type"), ("TU", "Type"),
           ("xadd", "X -> X -> X"), ("xsub", "X -> X -> X"), ("xscale", "S -> X -> X"), ("xnorm", "X -> S"),
           ("uadd", "U -> U -> U"), ("usub", "U -> U -> U"), ("unorm", "U -> S"),
           ("txact", "TX -> X -> X"), ("txneg", "TX -> TX"), ("txmuls", "TX -> S -> TX"), ("txdivs", "TX -> S -> TX"),
           ("txdivsqrt", "X -> TX -> X"), ("txmin", "TX -> S"),
           ("tuact", "TU -> U -> U"), ("tumuls", "TU -> S -> TU"), ("tudivs", "TU -> S -> TU"), ("tudivsqrt", "U -> TU -> U"), ("tumin", "TU -> S"),
           ("A", "X -> U"), ("AH", "U -> X"), ("proxfc", "TU -> U -> U"), ("proxg", "TX -> X -> X"),
           ("theta0", "S"), ("gamma_primal", "S"), ("gamma_dual", "S")]
    pdp = {"A": Fun("A", (V,), U), "AH": Fun("AH", (U,), V), "proxfc": Fun("proxfc", (TU, U), U), "proxg": Fun("proxg", (TX, V), V),
           "theta": Val(S, "theta0"), "gamma_primal": Val(S, "gamma_primal"), "gamma_dual": Val(S, "gamma_dual")}
    add("PrimalDualHybridGradient", "PrimalDualHybridGradient", pdb, PPD_REC, pdp, "pd_state S X U TX TU", [
        dict(gen="gen_pg_pd_init", method="__init__", kind="init",
             init_args={"proxfc": "proxfc", "proxg": "proxg", "A": "A", "AH": "AH", "theta": "theta", "gamma_primal": "gamma_primal",
                        "gamma_dual": "gamma_dual", "x": Val(V, "x"), "u": Val(U, "u"), "tau": Val(TX, "tau"), "sigma": Val(TU, "sigma"),
                        "max_iter": Val(Z, "0"), "tol": Val(S, "r0")},
             arg_binders=[("x", "X"), ("u", "U"), ("tau", "TX"), ("sigma", "TU"), ("r0", "S")],
             # tau_min / sigma_min exist only when the gamma is > 0; the model's placeholder is s0
             undef={"tau_min": "S", "sigma_min": "S"}, lemma_inst={"undef_tau_min": "(@s0 S)", "undef_sigma_min": "(@s0 S)"},
             private={"x_ext": None},
             hand="pd_init S X U TX TU txmin tumin x u tau sigma gamma_primal gamma_dual r0", unfold=["pd_init"]),
        dict(gen="gen_pg_pd_step", method="_update", kind="update",
             hand="pd_step S X U TX TU xadd xsub xscale xnorm uadd usub unorm txact txneg txmuls txdivs txdivsqrt "
                  "tuact tumuls tudivs tudivsqrt A AH proxfc proxg theta0 gamma_primal gamma_dual st",
             unfold=["pd_step", "theta_acc"]),
    ], PG_PD_OPS)
    return out


# ---------------------------------------------------------------------------------------------
# rendering
# ---------------------------------------------------------------------------------------------
TACTICS = """(* case analysis on every test that occurs (innermost first), then computation *)
Ltac tie_case :=
  match goal with
  | |- context [match ?c with _ => _ end] =>
      lazymatch c with
      | context [match _ with _ => _ end] => fail
      | _ => destruct c
      end
  end.
Ltac tie := cbv beta iota zeta; repeat (tie_case; cbv beta iota zeta); reflexivity.
"""

HEADER_ALG = """(* Gen_alg.v -- GENERATED by tools/translate_alg.py from sigpy/alg.py (sha256 %s)
   and util.axpy / util.xpay of sigpy/util.py (sha256 %s).  Do not edit.
   The solver steps as written in the source, over the operations of model/Alg.v and model/Alg2.v, and their
   agreement with the hand models (each lemma: unfolding, case analysis on the tests, reflexivity).
   Conventions: every Python assignment is a `let` (comment: source line); arrays are values, `.copy()` is the
   identity on values -- aliasing between variables is tracked by the translator while it executes the method
   symbolically (an in-place update is seen through every alias; a write into the result of a user function, a
   rebound array attribute in _update, or a missing private copy in __init__ -- CG: p when max_iter > 1, GM: z,
   PDHG: x_ext -- makes the translation FAIL CLOSED); what the user's functions return (P returning its argument)
   and the aliasing between attributes across calls is checked dynamically by C12 / C13;
   `x.item()` is the identity; `undef_<a>` stands for an attribute that does not exist in Python on that path. *)
From Coq Require Import ZArith List Bool.
From SV Require Import model.Alg model.Alg2.
Import ListNotations.
Local Open Scope Z_scope.

(* Python integer literals 2 and 4 in a floating-point position *)
Definition lit2 (E : IPOps) : Sc E := sadd s1 s1.
Definition lit4 (E : IPOps) : Sc E := sadd (lit2 E) (lit2 E).

"""

HEADER_PG = """(* Gen_alg_pg.v -- GENERATED by tools/translate_alg.py from sigpy/alg.py (sha256 %s)
   and util.axpy / util.xpay of sigpy/util.py (sha256 %s).  Do not edit.
   GradientMethod and PrimalDualHybridGradient as written in the source, over the operations of
   model/ProxGrad.v (the model of C13), and their agreement with that hand model.
   Same conventions as gen/Gen_alg.v. *)
From Coq Require Import List Bool.
From SV Require Import model.ProxGrad.
Import ListNotations.

"""


def render(mod, sp):
    lines = Method(mod, sp).translate()
    binders = list(sp["binders"]) + list(sp.get("extra_binders", []))
    if sp["kind"] == "init":
        binders += list(sp["arg_binders"]) + [("undef_" + a, t) for a, t in sp["undef"].items()]
        rty = sp["st_type"]
    else:
        binders += [("st", sp["st_type"])]
        rty = "bool" if sp["kind"] == "done" else sp["st_type"]
    bnd = " ".join("(%s : %s)" % b for b in binders)
    out = ["(* %s.%s  (alg.py line %d) *)" % (sp["cls"], sp["method"], mod.method(sp["cls"], sp["method"]).lineno)]
    out.append("Definition %s %s : %s :=\n  %s." % (sp["gen"], bnd, rty, "\n  ".join(lines)))
    inst = sp.get("lemma_inst", {})
    nbase = len(sp["binders"])
    quant = [b for b in binders[:nbase] if b[0] not in inst] + list(sp.get("lemma_forall", [])) \
        + [b for b in binders[nbase:] if b[0] not in inst]
    q = " ".join("(%s : %s)" % b for b in quant)
    call = " ".join(inst.get(b[0], b[0]) for b in binders)
    out.append("Lemma %s_ok : forall %s,\n  %s %s = %s.\nProof. intros. unfold %s, %s. tie. Qed.\n"
               % (sp["gen"], q, sp["gen"], call, sp["hand"], sp["gen"], ", ".join(sp["unfold"])))
    return out


def translate_sources(alg_src, util_src, which="alg"):
    """-> text of Gen_alg.v (which='alg') or Gen_alg_pg.v (which='pg')"""
    mod = Module(alg_src, util_src)
    shas = (hashlib.sha256(alg_src.encode()).hexdigest(), hashlib.sha256(util_src.encode()).hexdigest())
    specs = specs_alg() if which == "alg" else specs_pg()
    out = [(HEADER_ALG if which == "alg" else HEADER_PG) % shas, TACTICS]
    if which == "alg":
        out.append("(* ===== class Alg: the driver ===== *)")
        out += translate_driver(mod)
    checked = set()
    group = None
    for sp in specs:
        if sp["cls"] not in checked:
            checked.add(sp["cls"])
        mod.check_class(sp["cls"], sp["param_attrs"])
        if sp["group"] != group:
            group = sp["group"]
            out.append("(* ===== %s ===== *)" % group)
        out += render(mod, sp)
    return "\n".join(out) + "\n"


def read_sources(repo, alg_path=None):
    alg = open(alg_path or os.path.join(repo, "sigpy", "alg.py")).read()
    util = open(os.path.join(repo, "sigpy", "util.py")).read()
    return alg, util


def translate_alg(repo, alg_path=None):
    return translate_sources(*read_sources(repo, alg_path), which="alg")


def translate_alg_pg(repo, alg_path=None):
    return translate_sources(*read_sources(repo, alg_path), which="pg")


COVERED = ("Alg.update/done; ConjugateGradient, GradientMethod, PowerMethod, PrimalDualHybridGradient "
           "__init__/_update/_done; Newton/GerchbergSaxton _done")


def failing_lemma(gen_text, log):
    """name of the lemma / definition a coqc error message points into"""
    m = re.search(r'line (\d+), characters', log)
    if not m:
        return None
    lines = gen_text.split("\n")
    for i in range(min(int(m.group(1)), len(lines)) - 1, -1, -1):
        mm = re.match(r"\s*(?:Lemma|Definition)\s+([A-Za-z0-9_']+)", lines[i])
        if mm:
            return mm.group(1)
    return None


def tie(ctx, jobs=("alg",)):
    """The two obligations the checks C12 / C13 / C15 add (DESIGN 2.10 steps 1-2), in the way props/C07.py treats its
    translator: regenerate gen/Gen_alg*.v from the tree under test, then compile it (the `_ok` lemmas ARE the tie).
    Returns None when both hold, else {"theorem": <translator or lemma>, "log": ...} for the no-failing-input report."""
    from tools import translate_all
    from vlib import core
    files = {"alg": "Gen_alg", "alg_pg": "Gen_alg_pg"}
    tr_err = translate_all.run(strict=False, only=list(jobs))
    ctx.source_hash("sigpy/alg.py", "sigpy/util.py")
    ctx.obligation("translate:sigpy/alg.py (%s)" % COVERED, not tr_err)
    name = "tie:generated solver steps == hand model (%s lemmas)" % ", ".join(files[j] + ".v" for j in jobs)
    if tr_err:
        ctx.notes.append("translator failed closed: %s" % tr_err)
        ctx.obligation(name, False)
        return {"theorem": "translate:sigpy/alg.py", "log": str(tr_err)}
    targets = ["gen/%s.vo" % files[j] for j in jobs]
    ctx.checker_cmds.append("cd %s && make %s" % (core.COQ, " ".join(targets)))
    ok, log = core.coq_make(targets, timeout=900)
    ctx.obligation(name, ok)
    if ok:
        return None
    which = []
    for m in re.finditer(r'File "[^"]*?(Gen_alg[a-z_]*)\.v", line (\d+)', log):
        try:
            lem = failing_lemma(open(os.path.join(core.COQ, "gen", m.group(1) + ".v")).read(), "line %s, characters" % m.group(2))
        except OSError:
            lem = None
        w = "%s (gen/%s.v)" % (lem or "?", m.group(1))
        if w not in which:
            which.append(w)
    ctx.notes.append("generated solver steps no longer equal the hand model: %s: %s" % (", ".join(which), log[-1200:]))
    return {"theorem": "tie:" + (", ".join(which) or "gen/Gen_alg.v"), "log": log[-2500:]}


if __name__ == "__main__":
    args = [a for a in sys.argv[1:] if not a.startswith("--")]
    repo = args[0] if args else "/repo"
    sys.stdout.write(translate_alg_pg(repo) if "--pg" in sys.argv else translate_alg(repo))
