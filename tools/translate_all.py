"""Regenerate every generated Coq file from /repo (content-compared writes).
run() returns None on success or an error string (fail closed: the old generated
file is replaced by a stub that does not compile, so no stale model can be used)."""
import os, sys, traceback
HERE = os.path.dirname(os.path.abspath(__file__))
sys.path.insert(0, os.path.dirname(HERE))
from vlib import core
from tools import translate_loops, translate_linop

JOBS = {
    "block": ("Gen_block.v", lambda repo: translate_loops.translate_block(repo)),
    "interp": ("Gen_interp.v", lambda repo: translate_loops.translate_interp(repo)),
    "linop_table": ("Gen_linop_table.v", lambda repo: translate_linop.translate_table(repo)),
    "shapes": ("Gen_shapes.v", lambda repo: __import__("tools.translate_shapes", fromlist=["translate_shapes"]).translate_shapes(repo)),
    # solver steps of sigpy/alg.py over the operations of model/Alg.v, Alg2.v ("alg") and of model/ProxGrad.v ("alg_pg")
    "alg": ("Gen_alg.v", lambda repo: __import__("tools.translate_alg", fromlist=["translate_alg"]).translate_alg(repo)),
    "alg_pg": ("Gen_alg_pg.v", lambda repo: __import__("tools.translate_alg", fromlist=["translate_alg"]).translate_alg_pg(repo)),
    # trap_grad / min_trap_grad of sigpy/mri/rf/trajgrad.py over the operations record of model/Trap.v (C20)
    "trap": ("Gen_trap.v", lambda repo: __import__("tools.translate_trap", fromlist=["translate_trap"]).translate_trap(repo)),
    # sigpy/thresh.py and the _prox / __init__ methods of sigpy/prox.py over the operations of model/Prox.v (C11)
    "spokes": ("Gen_spokes.v", lambda repo: __import__("tools.translate_spokes", fromlist=["translate_spokes"]).translate_spokes(repo)),
    "prox": ("Gen_prox.v", lambda repo: __import__("tools.translate_prox", fromlist=["translate_prox"]).translate_prox(repo)),
    # configuration logic of sigpy.app.LinearLeastSquares (_get_alg, _get_*) over model/LLS.v + model/LLSExpr.v (C14)
    "lls": ("Gen_lls.v", lambda repo: __import__("tools.translate_lls", fromlist=["translate_lls"]).translate_lls(repo)),
    # Bloch simulators (sim.py, optcont.blochsim) and ab2rf (slr.py) over FOps + trig oracle of model/Bloch.v (C19)
    "bloch": ("Gen_bloch.v", lambda repo: __import__("tools.translate_bloch", fromlist=["translate_bloch"]).translate_bloch(repo)),
    # wrapper layer of sigpy/interp.py (interpolate / gridding, defaults, dispatch tables, _kaiser_bessel_kernel) over model/Interp.v + model/InterpW.v (C07)
    "interpw": ("Gen_interpw.v", lambda repo: __import__("tools.translate_interpw", fromlist=["translate_interpw"]).translate_interpw(repo)),
    # CPU paths of sigpy/conv.py (parameters, _convolve and its two adjoints, public wrappers) over model/Conv.v (C08)
    "conv": ("Gen_conv.v", lambda repo: __import__("tools.translate_conv", fromlist=["translate_conv"]).translate_conv(repo)),
    # resize / flip / circshift / downsample / upsample (+ _expand_shapes, _normalize_axes) of sigpy/util.py over model/Rearrange.v (C09)
    "util": ("Gen_util.v", lambda repo: __import__("tools.translate_util", fromlist=["translate_util"]).translate_util(repo)),
    # get_wavelet_shape / fwt / iwt (sigpy/wavelet.py) and Wavelet / InverseWavelet __init__/_apply (linop.py) over the PyWavelets
    # environment of model/WaveletPywt.v, tied to model/Wavelet.v + model/OpaqueWavelet.v (C10)
    "wavelet": ("Gen_wavelet.v", lambda repo: __import__("tools.translate_wavelet", fromlist=["translate_wavelet"]).translate_wavelet(repo)),
    # sigpy.mri.linop.Sense (tseg = comm = None) as a function into the deep embedding, and what SenseRecon / L1WaveletRecon /
    # TotalVariationRecon (sigpy/mri/app.py) hand to LinearLeastSquares, over model/Sense.v (sense_factory) + model/SenseRecon.v (C16)
    "sense": ("Gen_sense.v", lambda repo: __import__("tools.translate_sense", fromlist=["translate_sense"]).translate_sense(repo)),
    # sigpy.mri.app.EspiritCalib at one voxel (__init__ incl. forward / normalize, PowerMethod set-up via Gen_alg's gen_pm_*, _output)
    # over model/Espirit.v + model/EspiritCalib.v (C17)
    "espirit": ("Gen_espirit.v", lambda repo: __import__("tools.translate_espirit", fromlist=["translate_espirit"]).translate_espirit(repo)),
    # _poisson (numba kernel) and poisson of sigpy/mri/samp.py over POps / the draw stream of model/Poisson.v + model/PoissonFront.v (C18)
    "poisson": ("Gen_poisson.v", lambda repo: __import__("tools.translate_poisson", fromlist=["translate_poisson"]).translate_poisson(repo)),
    # sigpy/fourier.py: fft / ifft / _fftc / _ifftc over model/Fourier.v (C05) and nufft / nufft_adjoint / helpers over model/Nufft.v, NufftExt.v (C06)
    "fourier": ("Gen_fourier.v", lambda repo: __import__("tools.translate_fourier", fromlist=["translate_fourier"]).translate_fourier(repo)),
    # what every `_apply` of sigpy/linop.py computes (+ Linop.apply / __call__ / operator overloads) over model/Linop.v's den and
    # model/OpaqueStd.orc_std (C01-C04)
    "linop_apply": ("Gen_linop_apply.v", lambda repo: __import__("tools.translate_linop_apply", fromlist=["translate_linop_apply"]).translate_linop_apply(repo)),
}
try:
    from tools import translate_more
    JOBS.update(translate_more.JOBS)
except ImportError:
    pass


def run(strict=False, only=None):
    errs = []
    for name, (fname, fn) in JOBS.items():
        if only and name not in only:
            continue
        path = os.path.join(core.COQ, "gen", fname)
        try:
            text = fn(core.REPO)
        except Exception as e:   # TranslationError, SyntaxError, ...
            errs.append("%s: %s: %s" % (name, type(e).__name__, e))
            text = "(* translation of %s FAILED CLOSED: %s *)\nTranslation failed.\n" % (name, str(e).replace("*)", "* )"))
            if strict:
                raise
        core.write_if_changed(path, text)
    return "; ".join(errs) if errs else None


if __name__ == "__main__":
    e = run()
    print(e or "ok")
    sys.exit(1 if e else 0)
