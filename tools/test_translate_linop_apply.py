#!/usr/bin/env python3
"""Self-test of tools/translate_linop_apply.py: small textual mutations of a COPY of sigpy/linop.py.

For every mutation the copy is translated (the sibling modules util / block / fourier / interp / conv are copied unchanged);
expected outcome: the translation FAILS CLOSED (TranslationError naming class and line) or the first `_ok` lemma that no longer
compiles is named.  The unmodified source and the meaning-preserving edits that keep the generated term must pass;
meaning-preserving edits that change the generated TERM or leave the accepted fragment are listed with the expectation "breaks".
Also applied (informational): the seeded changes /verif/seeded/C0[1-4]_m*/patch.diff that touch sigpy/linop.py.
Scratch: /verif/build/trlinopapply_selftest/<name>/.

    /venv/bin/python tools/test_translate_linop_apply.py [repo] [--no-seeded]        exit 0 = everything as expected
"""
import concurrent.futures
import os
import shutil
import subprocess
import sys
import time

HERE = os.path.dirname(os.path.abspath(__file__))
sys.path.insert(0, os.path.dirname(HERE))
from tools import translate_linop_apply as T      # noqa: E402
from vlib import core                             # noqa: E402

SCRATCH = os.path.join(core.BUILD, "trlinopapply_selftest")

SCONJ = "                if self.conj:\n                    mult = mult.conjugate()\n"
ACONJ = "                if self.conj:\n                    mult = xp.conj(mult)\n"
ADJM = "mat = xp.conj(mat).swapaxes(-1, -2)"
ACC = "output = output + linop(input)"
HS_NONE = "                    output = output + linop(\n                        input[start:end].reshape(linop.ishape)\n                    )"
TILE_A = "                self.expanded_ishape.append(1)\n                self.reps.append(oshape[d])"
DIAG_ST = "                    istart = self.iindices[n - 1]\n                    ostart = self.oindices[n - 1]"

# (name, old text, new text, which occurrence (0-based; -1 = all), expectation)
MUTATIONS = [
    # ---- Multiply ------------------------------------------------------------------------------------------------
    ("mul_scalar_conj_dropped", SCONJ, "", 0, "caught"),
    ("mul_array_conj_dropped", ACONJ, "", 0, "caught"),
    ("mul_scalar_conj_inverted", "                if self.conj:\n                    mult = mult.conjugate()", "                if not self.conj:\n                    mult = mult.conjugate()", 0, "caught"),
    ("mul_fastpath_zero", "if self.mult == 1:", "if self.mult == 0:", 0, "caught"),
    ("mul_branches_swapped", "            if np.isscalar(self.mult):\n                if self.mult == 1", "            if not np.isscalar(self.mult):\n                if self.mult == 1", 0, "caught"),
    ("mul_plus", "return input * mult", "return input + mult", 0, "caught"),
    ("mul_astype", "            return input * mult", "            return (input * mult).astype(input.dtype, copy=False)", 0, "caught"),
    # ---- MatMul / RightMatMul ------------------------------------------------------------------------------------------
    ("matmul_args_swapped", "return xp.matmul(mat, input)", "return xp.matmul(input, mat)", 0, "caught"),
    ("rightmatmul_args_swapped", "return xp.matmul(input, mat)", "return xp.matmul(mat, input)", 0, "caught"),
    ("matmul_no_conj", ADJM, "mat = mat.swapaxes(-1, -2)", 0, "caught"),
    ("matmul_no_swap", ADJM, "mat = xp.conj(mat)", 0, "caught"),
    ("rightmatmul_no_conj", ADJM, "mat = mat.swapaxes(-1, -2)", 1, "caught"),
    ("matmul_adjoint_inverted", "            if self.adjoint:\n                mat = xp.conj", "            if not self.adjoint:\n                mat = xp.conj", 0, "caught"),
    ("matmul_swap_other_axes", ".swapaxes(-1, -2)", ".swapaxes(-1, -3)", 1, "caught"),
    # ---- rearrangement leaves ------------------------------------------------------------------------------------------
    ("reshape_to_ishape", "return input.reshape(self.oshape)", "return input.reshape(self.ishape)", 0, "caught"),
    ("transpose_no_mod", "axes = [a % len(ishape) for a in axes]", "axes = [a for a in axes]", 0, "caught"),
    ("transpose_inverse_axes", "return input.transpose(self.axes)", "return input.transpose(self.iaxes)", 0, "caught"),
    ("transpose_no_axes", "return input.transpose(self.axes)", "return input.transpose(None)", 0, "caught"),
    ("resize_shifts_swapped", "input, self.oshape, ishift=self.ishift, oshift=self.oshift", "input, self.oshape, ishift=self.oshift, oshift=self.ishift", 0, "caught"),
    ("resize_to_ishape", "input, self.oshape, ishift=self.ishift", "input, self.ishape, ishift=self.ishift", 0, "caught"),
    ("resize_no_shifts", "input, self.oshape, ishift=self.ishift, oshift=self.oshift", "input, self.oshape", 0, "caught"),
    ("flip_all_axes", "util.flip(input, self.axes)", "util.flip(input)", 0, "caught"),
    ("downsample_no_shift", "util.downsample(input, self.factors, shift=self.shift)", "util.downsample(input, self.factors)", 0, "caught"),
    ("downsample_args_swapped", "util.downsample(input, self.factors, shift=self.shift)", "util.downsample(input, self.shift, shift=self.factors)", 0, "caught"),
    ("upsample_args_swapped", "input, self.oshape, self.factors, shift=self.shift", "input, self.oshape, self.shift, shift=self.factors", 0, "caught"),
    ("circshift_inverse_shift", "util.circshift(input, self.shift, self.axes)", "util.circshift(input, self.ishift, self.axes)", 0, "caught"),
    ("circshift_no_axes", "util.circshift(input, self.shift, self.axes)", "util.circshift(input, self.shift)", 0, "caught"),
    ("sum_no_keepdims", "keepdims=True", "keepdims=False", 0, "caught"),
    ("sum_axes_not_normalised", "self.axes = tuple(i % len(ishape) for i in axes)", "self.axes = tuple(axes)", 0, "caught"),
    ("sum_axes_mod_plus_1", "self.axes = tuple(i % len(ishape) for i in axes)", "self.axes = tuple(i % (len(ishape) + 1) for i in axes)", 0, "caught"),
    ("sum_fewer_axes", "xp.sum(input, axis=self.axes,", "xp.sum(input, axis=self.axes[1:],", 0, "caught"),
    ("sum_reshape_ishape", ").reshape(\n                self.oshape\n            )", ").reshape(\n                self.ishape\n            )", 0, "caught"),
    ("tile_args_swapped", "xp.tile(input.reshape(self.expanded_ishape), self.reps)", "xp.tile(input.reshape(self.reps), self.expanded_ishape)", 0, "caught"),
    ("tile_init_swapped", TILE_A, "                self.expanded_ishape.append(oshape[d])\n                self.reps.append(1)", 0, "caught"),
    ("tile_init_not_in", "            if d in self.axes:\n                self.expanded_ishape", "            if d not in self.axes:\n                self.expanded_ishape", 0, "caught"),
    ("tile_axes_not_normalised", "self.axes = tuple(a % len(oshape) for a in axes)", "self.axes = tuple(axes)", 0, "caught"),
    ("a2b_args_swapped", "input, self.blk_shape, self.blk_strides", "input, self.blk_strides, self.blk_shape", 0, "caught"),
    ("b2a_ishape", "input, self.oshape, self.blk_shape, self.blk_strides", "input, self.ishape, self.blk_shape, self.blk_strides", 0, "caught"),
    ("b2a_calls_a2b", "return block.blocks_to_array(\n                input, self.oshape, self.blk_shape, self.blk_strides", "return block.array_to_blocks(\n                input, self.blk_shape, self.blk_strides", 0, "caught"),
    ("slice_returns_input", "return input[self.idx]", "return input", 0, "caught"),
    ("embed_ones", "np.zeros(self.oshape, dtype=input.dtype)", "np.ones(self.oshape, dtype=input.dtype)", 0, "caught"),
    ("embed_default_dtype", "np.zeros(self.oshape, dtype=input.dtype)", "np.zeros(self.oshape)", 0, "caught"),
    ("embed_accumulate", "output[self.idx] = input", "output[self.idx] += input", 0, "caught"),
    ("embed_ishape", "np.zeros(self.oshape, dtype=input.dtype)", "np.zeros(self.ishape, dtype=input.dtype)", 0, "caught"),
    # ---- Conj / Add / Compose ------------------------------------------------------------------------------------------
    ("conj_input_not_conjugated", "            input = xp.conj(input)\n", "            pass\n", 0, "caught"),
    ("conj_output_not_conjugated", "return xp.conj(output)", "return output", 0, "caught"),
    ("conj_real_shortcut", "            input = xp.conj(input)\n", "            if not xp.iscomplexobj(input):\n                return self.A(input)\n\n            input = xp.conj(input)\n", 0, "caught"),
    ("add_minus", ACC, "output = output - linop(input)", 0, "caught"),
    ("add_in_place", ACC, "output += linop(input)", 0, "caught"),
    ("add_skips_first", "            for linop in self.linops:\n                output = output", "            for linop in self.linops[1:]:\n                output = output", 0, "caught"),
    ("add_applies_to_output", ACC, "output = output + linop(output)", 0, "caught"),
    ("add_starts_at_one", "        output = 0\n        with backend.get_device(input):\n            for linop in self.linops:", "        output = 1\n        with backend.get_device(input):\n            for linop in self.linops:", 0, "caught"),
    ("add_adjoint_terms", ACC, "output = output + linop.H(input)", 0, "caught"),
    ("compose_forward_order", "for linop in self.linops[::-1]:", "for linop in self.linops:", 0, "caught"),
    ("compose_applies_to_input", "output = linop(output)", "output = linop(input)", 0, "caught"),
    ("compose_skips_last", "for linop in self.linops[::-1]:", "for linop in self.linops[-2::-1]:", 0, "caught"),
    # ---- Hstack / Vstack / Diag ------------------------------------------------------------------------------------------
    ("hstack_start_off_by_one", "start = self.indices[n - 1]", "start = self.indices[n]", 0, "caught"),
    ("hstack_first_start_one", "                    start = 0\n", "                    start = 1\n", 0, "caught"),
    ("hstack_no_reshape", HS_NONE, "                    output = output + linop(input[start:end])", 0, "caught"),
    ("hstack_reshape_oshape", "input[start:end].reshape(linop.ishape)", "input[start:end].reshape(linop.oshape)", 0, "caught"),
    ("hstack_axis_no_mod", "axis = self.axis % ndim", "axis = self.axis", 0, "caught"),
    ("hstack_axis_plus_one", "                        [slice(None)] * axis\n", "                        [slice(None)] * (axis + 1)\n", 0, "caught"),
    ("hstack_minus", "output = output + linop(input[slc])", "output = output - linop(input[slc])", 0, "caught"),
    ("hstack_in_place", "output = output + linop(input[slc])", "output += linop(input[slc])", 0, "caught"),
    ("hstack_slices_from_end", "+ [slice(start, end)]", "+ [slice(end, start)]", 0, "caught"),
    ("hstack_ndim_oshape", "ndim = len(linop.ishape)", "ndim = len(linop.oshape)", 0, "caught"),
    ("vstack_ravel_order_K", "output[start:end] = output_n.ravel()", "output[start:end] = output_n.ravel(order=\"K\")", 0, "caught"),
    ("vstack_ravel_order_F", "output[start:end] = output_n.ravel()", "output[start:end] = output_n.ravel(order=\"F\")", 0, "caught"),
    ("vstack_no_ravel", "output[start:end] = output_n.ravel()", "output[start:end] = output_n", 0, "caught"),
    ("vstack_bounds_swapped", "output[start:end] = output_n.ravel()", "output[end:start] = output_n.ravel()", 0, "caught"),
    ("vstack_last_block_test", "if n == self.nops - 1:", "if n == self.nops:", 1, "caught"),
    ("vstack_end_off_by_one", "end = self.indices[n]", "end = self.indices[n + 1]", 1, "caught"),
    ("vstack_ndim_ishape", "ndim = len(linop.oshape)", "ndim = len(linop.ishape)", 0, "caught"),
    ("vstack_writes_input", "output[slc] = output_n", "output[slc] = input", 0, "caught"),
    ("vstack_applies_to_slice", "output_n = linop(input)", "output_n = linop(input[start:end])", 0, "caught"),
    ("vstack_accumulates", "output[slc] = output_n", "output[slc] += output_n", 0, "caught"),
    ("diag_split_points_swapped", DIAG_ST, "                    istart = self.oindices[n - 1]\n                    ostart = self.iindices[n - 1]", 0, "caught"),
    ("diag_input_axis_is_oaxis", "axis = self.iaxis % ndim", "axis = self.oaxis % ndim", 0, "caught"),
    ("diag_output_slice_from_istart", "+ [slice(ostart, oend)]", "+ [slice(istart, oend)]", 0, "caught"),
    ("diag_ravel_order_K", "output[ostart:oend] = output_n.ravel()", "output[ostart:oend] = output_n.ravel(order=\"K\")", 0, "caught"),
    ("diag_reshape_oshape", "input[istart:iend].reshape(linop.ishape)", "input[istart:iend].reshape(linop.oshape)", 0, "caught"),
    ("diag_tests_swapped", "                if self.oaxis is None:\n                    output[ostart", "                if self.iaxis is None:\n                    output[ostart", 0, "caught"),
    ("alloc_loses_blocks", "    if output is None:\n        return xp.empty(oshape, dtype=dtype)\n\n    dtype = xp.result_type(output.dtype, dtype)\n    if dtype != output.dtype:\n        return output.astype(dtype)\n\n    return output",
     "    if output is not None:\n        dtype = xp.result_type(output.dtype, dtype)\n        if dtype == output.dtype:\n            return output\n\n    return xp.empty(oshape, dtype=dtype)", 0, "caught"),
    ("alloc_zeros_each_time", "        return output.astype(dtype)\n", "        return xp.zeros(oshape, dtype=dtype)\n", 0, "caught"),
    # ---- Linop.apply / overloads ---------------------------------------------------------------------------------------
    ("apply_skips_apply", "output = self._apply(input)", "output = input", 0, "caught"),
    ("call_uses_rmul", "return self.__mul__(input)", "return self.__rmul__(input)", 0, "caught"),
    ("mul_compose_order", "return Compose([self, input])", "return Compose([input, self])", 0, "caught"),
    ("mul_scalar_on_oshape", "M = Multiply(self.ishape, input)", "M = Multiply(self.oshape, input)", 0, "caught"),
    ("mul_scalar_order", "return Compose([self, M])", "return Compose([M, self])", 0, "caught"),
    ("rmul_order", "return Compose([M, self])", "return Compose([self, M])", 0, "caught"),
    ("rmul_conj", "M = Multiply(self.oshape, input)", "M = Multiply(self.oshape, input, conj=True)", 0, "caught"),
    ("neg_plus_one", "return -1 * self", "return 1 * self", 0, "caught"),
    ("sub_no_neg", "return self.__add__(-input)", "return self.__add__(input)", 0, "caught"),
    ("add_order", "return Add([self, input])", "return Add([input, self])", 0, "caught"),
    ("combine_no_flatten", "combined_linops += linop.linops", "combined_linops.append(linop)", 0, "caught"),
    ("compose_init_no_combine", "self.linops = _combine_compose_linops(linops)", "self.linops = linops", 0, "caught"),
    ("multiply_default_conj", "def __init__(self, ishape, mult, conj=False):", "def __init__(self, ishape, mult, conj=True):", 0, "caught"),
    ("class_overrides_call", "class Identity(Linop):\n", "class Identity(Linop):\n    def __call__(self, input):\n        return 2 * input\n\n", 0, "caught"),
    ("patched_after_definition", "def Gradient(ishape, axes=None):", "Identity._apply = lambda self, input: 2 * input\n\n\ndef Gradient(ishape, axes=None):", 0, "caught"),
    # ---- library-backed leaves (part std) ---------------------------------------------------------------------------------
    ("fft_calls_ifft", "return fourier.fft(input, axes=self.axes, center=self.center)", "return fourier.ifft(input, axes=self.axes, center=self.center)", 0, "caught"),
    ("fft_center_dropped", "return fourier.fft(input, axes=self.axes, center=self.center)", "return fourier.fft(input, axes=self.axes)", 0, "caught"),
    ("fft_axes_dropped", "return fourier.fft(input, axes=self.axes, center=self.center)", "return fourier.fft(input, center=self.center)", 0, "caught"),
    ("ifft_norm_none", "return fourier.ifft(input, axes=self.axes, center=self.center)", "return fourier.ifft(input, axes=self.axes, center=self.center, norm=None)", 0, "caught"),
    ("fft_oshape", "return fourier.fft(input, axes=self.axes, center=self.center)", "return fourier.fft(input, self.oshape, axes=self.axes, center=self.center)", 0, "caught"),
    ("interp_width_param_swapped", "                width=self.width,\n                param=self.param,", "                width=self.param,\n                param=self.width,", 0, "caught"),
    ("interp_kernel_default", "                kernel=self.kernel,\n                width=self.width,\n                param=self.param,\n            )\n\n    def _adjoint_linop(self):\n        return Gridding(",
     "                width=self.width,\n                param=self.param,\n            )\n\n    def _adjoint_linop(self):\n        return Gridding(", 0, "caught"),
    ("gridding_shape_ishape", "                coord,\n                self.oshape,\n                kernel=self.kernel,", "                coord,\n                self.ishape,\n                kernel=self.kernel,", 0, "caught"),
    ("gridding_calls_interpolate", "return interp.gridding(\n                input,\n                coord,\n                self.oshape,", "return interp.interpolate(\n                input,\n                coord,", 0, "caught"),
    ("nufft_default_oversamp", "input, coord, oversamp=self.oversamp, width=self.width", "input, coord, width=self.width", 0, "caught"),
    ("nufft_params_swapped", "input, coord, oversamp=self.oversamp, width=self.width", "input, coord, oversamp=self.width, width=self.oversamp", 0, "caught"),
    ("nufft_adjoint_shape", "                coord,\n                self.oshape,\n                oversamp=self.oversamp,", "                coord,\n                self.ishape,\n                oversamp=self.oversamp,", 0, "caught"),
    ("conv_mode_fixed", "                mode=self.mode,\n", "                mode=\"valid\",\n", 0, "caught"),
    ("conv_strides_dropped", "                strides=self.strides,\n", "", 0, "caught"),
    ("conv_multi_channel_dropped", "                multi_channel=self.multi_channel,\n            )\n\n    def _adjoint_linop(self):\n        return ConvolveDataAdjoint(", "            )\n\n    def _adjoint_linop(self):\n        return ConvolveDataAdjoint(", 0, "caught"),
    ("convfilter_args_swapped", "return conv.convolve(\n                data,\n                input,", "return conv.convolve(\n                input,\n                data,", 0, "caught"),
    ("convdataadj_calls_filter_adjoint", "return conv.convolve_data_adjoint(", "return conv.convolve_filter_adjoint(", 0, "caught"),
    ("convfilteradj_shape_ishape", "                data,\n                self.oshape,\n                mode=self.mode,", "                data,\n                self.ishape,\n                mode=self.mode,", 0, "caught"),
    # ---- meaning-preserving edits that keep the generated term: the tie must survive them -----------------------------------
    ("neutral_comment", "            return input.reshape(self.oshape)", "            # C-order reshape\n            return input.reshape(self.oshape)  # a view when possible", 0, "pass"),
    ("neutral_rename_local", "output_n", "block_out", -1, "pass"),
    ("neutral_rename_loop_variable", "            for linop in self.linops:\n                output = output + linop(input)", "            for op in self.linops:\n                output = output + op(input)", 0, "pass"),
    ("neutral_unused_local", "            return util.flip(input, self.axes)", "            rank = len(self.ishape)\n            return util.flip(input, self.axes)", 0, "pass"),
    ("neutral_kwargs_reordered", "return fourier.fft(input, axes=self.axes, center=self.center)", "return fourier.fft(input, center=self.center, axes=self.axes)", 0, "pass"),
    ("neutral_keyword_for_positional", "util.flip(input, self.axes)", "util.flip(input, axes=self.axes)", 0, "pass"),
    ("neutral_function_added", "def _check_compose_linops(linops):", "def _unused_helper():\n    return None\n\n\ndef _check_compose_linops(linops):", 0, "pass"),
    ("neutral_with_dropped", "        with backend.get_device(input):\n            return input.reshape(self.oshape)", "        return input.reshape(self.oshape)", 0, "pass"),
    ("neutral_docstring", "        \"\"\"Apply linear operation on input.", "        \"\"\"Apply the linear operation to input.", 0, "pass"),
    ("neutral_intermediate_variable", "            return util.flip(input, self.axes)", "            flipped = util.flip(input, self.axes)\n            return flipped", 0, "pass"),
    ("neutral_check_message", "\"Shapes must be positive, got {shape}\"", "\"Shapes must be > 0, got {shape}\"", 0, "pass"),
    # the advertised input shape of NUFFTAdjoint: the value model (Nufft.nufft_adjoint -> Interp.gridding) does not look at the shape
    # of its input, so this __init__ defect is invisible HERE; it is gen/Gen_shapes.v + chk_shapes' job (shapes, not den)
    ("invisible_nufft_adjoint_init_pts", "ishape = list(oshape[:-ndim]) + list(coord.shape[:-1])", "ishape = list(oshape[:-ndim]) + list(coord.shape)", 1, "pass"),
    ("neutral_adjoint_table_edit", "        return Reshape(self.ishape, self.oshape)", "        return Reshape(self.oshape, self.ishape)", 0, "pass"),   # not _apply: Gen_linop_table's job
    # ---- meaning-preserving edits that change the TERM or leave the fragment: reported (accepted) ----------------------------
    ("refactor_identity_copy", "    def _apply(self, input):\n        return input\n\n    def _adjoint_linop(self):\n        return self\n\n    def _normal_linop(self):", "    def _apply(self, input):\n        return input.copy()\n\n    def _adjoint_linop(self):\n        return self\n\n    def _normal_linop(self):", 0, "breaks"),
    ("refactor_reversed_builtin", "for linop in self.linops[::-1]:", "for linop in reversed(self.linops):", 0, "breaks"),
    ("refactor_conditional_expression", "                if n == 0:\n                    start = 0\n                else:\n                    start = self.indices[n - 1]\n", "                start = 0 if n == 0 else self.indices[n - 1]\n", 0, "breaks"),
    ("refactor_module_constant", "def _check_shape_positive(shape):", "_DEFAULT_AXIS = None\n\n\ndef _check_shape_positive(shape):", 0, "breaks"),
    ("refactor_add_commuted", ACC, "output = linop(input) + output", 0, "breaks"),
    ("refactor_alloc_renamed_local", "    dtype = xp.result_type(output.dtype, dtype)\n    if dtype != output.dtype:\n        return output.astype(dtype)", "    common = xp.result_type(output.dtype, dtype)\n    if common != output.dtype:\n        return output.astype(common)", 0, "breaks"),
]


def nth_replace(text, old, new, k):
    if k == -1:
        assert old in text, old
        return text.replace(old, new)
    idx = -1
    for _ in range(k + 1):
        idx = text.find(old, idx + 1)
        if idx < 0:
            raise AssertionError("pattern not found (occurrence %d): %r" % (k, old))
    return text[:idx] + new + text[idx + len(old):]


def compile_gen(path):
    p = subprocess.run(["coqc", "-w", "-all", "-Q", core.COQ, "SV", path], cwd=os.path.dirname(path),
                       stdout=subprocess.PIPE, stderr=subprocess.STDOUT, text=True, timeout=900)
    return p.returncode, p.stdout


def one(name, src, repo):
    d = os.path.join(SCRATCH, name.replace(":", "_"))
    shutil.rmtree(d, ignore_errors=True)
    os.makedirs(os.path.join(d, "sigpy"))
    for m in T.SIBLINGS:
        shutil.copy(os.path.join(repo, "sigpy", m + ".py"), os.path.join(d, "sigpy", m + ".py"))
    with open(os.path.join(d, T.SRC_REL), "w") as f:
        f.write(src)
    try:
        text = T.translate_linop_apply(d)
    except T.TranslationError as e:
        return ("fails closed", str(e))
    except SyntaxError as e:
        return ("fails closed", "SyntaxError: %s" % e)
    path = os.path.join(d, "Gen_linop_apply.v")
    with open(path, "w") as f:
        f.write(text)
    rc, out = compile_gen(path)
    if rc == 0:
        return ("ok", "")
    return ("lemma fails", str(T.failing_lemma(text, out)))


def seeded_patches(src0):
    out = []
    root = os.path.join(core.VERIF, "seeded")
    for name in sorted(os.listdir(root)) if os.path.isdir(root) else []:
        patch = os.path.join(root, name, "patch.diff")
        if name[:4] not in ("C01_", "C02_", "C03_", "C04_") or not os.path.exists(patch):
            continue
        files = [l.split()[1][2:] for l in open(patch) if l.startswith("+++ ")]
        if T.SRC_REL not in files:
            out.append(("seeded:" + name, None, "does not touch linop.py (%s)" % ", ".join(files)))
            continue
        d = os.path.join(SCRATCH, "seeded_src_" + name)
        shutil.rmtree(d, ignore_errors=True)
        os.makedirs(os.path.join(d, "sigpy"))
        open(os.path.join(d, T.SRC_REL), "w").write(src0)
        p = subprocess.run(["patch", "-p1", "-s", "--no-backup-if-mismatch", "-d", d, "-i", patch],
                           stdout=subprocess.PIPE, stderr=subprocess.STDOUT, text=True)
        if p.returncode:
            out.append(("seeded:" + name, None, "does not apply"))
            continue
        out.append(("seeded:" + name, open(os.path.join(d, T.SRC_REL)).read(), "info"))
        shutil.rmtree(d, ignore_errors=True)
    return out


def main():
    pos = [a for a in sys.argv[1:] if not a.startswith("--")]
    repo = pos[0] if pos else core.REPO
    t0 = time.time()
    ok, log = core.coq_make(["model/OpaqueStd.vo"], timeout=1500)
    if not ok:
        print("cannot build the hand model:\n" + log[-1500:])
        return 2
    src0 = open(os.path.join(repo, T.SRC_REL)).read()
    jobs = [("UNMODIFIED", src0, "pass")]
    for name, old, new, k, expect in MUTATIONS:
        jobs.append((name, nth_replace(src0, old, new, k), expect))
    skipped = []
    if "--no-seeded" not in sys.argv:
        for j in seeded_patches(src0):
            (jobs if j[1] is not None else skipped).append(j)
    with concurrent.futures.ThreadPoolExecutor(max_workers=8) as ex:
        results = list(ex.map(lambda j: one(j[0], j[1], repo), jobs))
    bad = 0
    tally = {}
    print("%-36s %-8s %-9s %s" % ("mutation", "expected", "verdict", "how"))
    for (name, _, expect), (how, detail) in zip(jobs, results):
        verdict = "pass" if how == "ok" else "caught"
        good = expect == "info" or verdict == {"caught": "caught", "breaks": "caught", "pass": "pass"}[expect]
        bad += 0 if good else 1
        tally[(expect, how)] = tally.get((expect, how), 0) + 1
        print("%-36s %-8s %-9s %s%s" % (name, expect, verdict + ("" if good else " (!!)"), how, (": " + detail[:230]) if detail else ""))
    for name, _, why in skipped:
        print("%-36s %-8s %-9s %s" % (name, "info", "-", why))
    print("; ".join("%s/%s: %d" % (e, h, n) for (e, h), n in sorted(tally.items())))
    print("%d cases, %d unexpected, %.1fs" % (len(jobs), bad, time.time() - t0))
    return 1 if bad else 0


if __name__ == "__main__":
    sys.exit(main())
