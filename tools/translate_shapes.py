#!/usr/bin/env python3
"""Fail-closed translator of sigpy's integer "shape / parameter" functions (Python `ast` -> Gallina).

Source functions (see JOBSPEC below): the broadcasting / stacking / convolution shape helpers of
linop.py, util.py, conv.py, fourier.py, the `__init__` shape formulas of six Linop classes, and the
shift / copy_shape arithmetic of util.resize.  Each becomes

    Definition gen_<name> <typed parameters> : result <type> := <monadic Gallina term>.

over  Z / bool / list / option / tuples  in the error monad `result` (model/Block.v): `raise`, an
out-of-range index, an unpacking mismatch, `max()` of an empty sequence, `//` or `%` by zero are `Err`.
The generated file starts with a fixed PRELUDE: the reading of the Python primitives (negative indices,
slices with clamping, `[x] * k`, zip = combine, sorted, in-place list update).  coq/proofs/ShapesTie.v
proves / checks that every gen_<name> agrees with the hand model of coq/model/*.v.

Accepted subset (anything else raises TranslationError, the job then fails closed):
  statements   x = e | a, b = <call> | self.x = e | x[i] = e | x[i], x[j] = x[j], x[i] | x += e | x[i] += e
               | x.append(e) | if / elif / else (with `x is None` narrowing of optional parameters)
               | for <names> in zip(...) / range(n) / <list> (no break / continue / return inside)
               | return e | raise ... | super().__init__(o, i)  (class __init__: the function's result)
  expressions  int / bool / None / str constants, names, self.x, + - * // % (int), list + list, list * int,
               float * int and ceil() (only over the abstract coordinate scalars `COps`),
               comparisons, and / or / not, x[i], x[a:b], len max min sorted range list tuple any all
               util.prod slice(a, b), list comprehensions / generator arguments over zip / range / lists
               with pure `if` filters, calls of other translated functions.
"""
import ast
import hashlib


class TranslationError(Exception):
    pass


# ------------------------------------------------------------------ types
Z, B, R, S, U = "Z", "bool", "C", "str", "unit"


def TL(t):
    return ("list", t)


def TO(t):
    return ("opt", t)


def TT(*ts):
    return ("tup", tuple(ts))


L = TL(Z)
LL = TL(L)
OL = TO(L)
OZ = TO(Z)


def coqty(t):
    if t == S:
        return "Z"
    if isinstance(t, str):
        return t
    if t[0] == "list":
        return "(list %s)" % coqty(t[1])
    if t[0] == "opt":
        return "(option %s)" % coqty(t[1])
    if t[0] == "tup":
        return "(" + " * ".join(coqty(x) for x in t[1]) + ")"
    raise TranslationError("type %r" % (t,))


def uses_real(t):
    if t == R:
        return True
    if isinstance(t, str):
        return False
    if t[0] == "tup":
        return any(uses_real(x) for x in t[1])
    return uses_real(t[1])


RESERVED = {"by", "at", "in", "as", "end", "fun", "let", "if", "then", "else", "with", "using", "return",
            "fix", "cofix", "match", "forall", "exists", "where", "for", "mod", "Set", "Prop", "Type", "IF",
            "C", "tt", "true", "false"}
# identifiers the generated text itself uses: a python variable of that name would capture them
USED = {"map", "filter", "combine", "existsb", "forallb", "negb", "prodZ", "repeat", "app", "Ok", "Err", "E_py",
        "pybind", "py_len", "py_get", "py_set", "py_slice", "py_repeat", "py_range", "py_floordiv", "py_mod",
        "py_max_list", "py_sorted", "py_mapM", "py_foldM", "py_in", "py_b2z", "py_unpack2", "py_is_none",
        "zlist_eqb", "cceil", "cmul", "cofZ", "Some", "None", "fst", "snd", "pair", "nil", "cons"}


def mangle(name):
    if name in USED or name.startswith(("gen_", "py_", "t__")):
        raise TranslationError("python name %s collides with the generated vocabulary" % name)
    name = name.replace(".", "_")
    return name + "_" if name in RESERVED else name


def call_name(node):
    f = node.func
    if isinstance(f, ast.Name):
        return f.id
    if isinstance(f, ast.Attribute) and isinstance(f.value, ast.Name):
        return f.value.id + "." + f.attr
    return None


def is_none(node):
    return isinstance(node, ast.Constant) and node.value is None


def pat(names):
    """nested pair pattern / tuple for combine-based zips:  i, (m, d)"""
    if len(names) == 1:
        return names[0]
    return "(%s, %s)" % (names[0], pat(names[1:]))


def tup(names):
    if len(names) == 0:
        return "tt"
    if len(names) == 1:
        return names[0]
    return "(" + ", ".join(names) + ")"


def funpat(names):
    if len(names) == 0:
        return "_"
    if len(names) == 1:
        return names[0]
    return "'(" + ", ".join(names) + ")"


def strip_doc(stmts):
    return [s for s in stmts if not (isinstance(s, ast.Expr) and isinstance(s.value, ast.Constant)
                                     and isinstance(s.value.value, str))]


def terminates(stmts):
    stmts = strip_doc(stmts)
    if not stmts:
        return False
    s = stmts[-1]
    if isinstance(s, (ast.Return, ast.Raise)):
        return True
    if isinstance(s, ast.If):
        return terminates(s.body) and terminates(s.orelse)
    return False


def key_of_target(t):
    if isinstance(t, ast.Name):
        return t.id
    if isinstance(t, ast.Attribute) and isinstance(t.value, ast.Name) and t.value.id == "self":
        return "self." + t.attr
    if isinstance(t, ast.Subscript):
        return key_of_target(t.value)
    raise TranslationError("assignment target " + ast.dump(t)[:120])


def assigned(stmts):
    out = set()
    for s in stmts:
        if isinstance(s, ast.Assign):
            for t in s.targets:
                for e in (t.elts if isinstance(t, ast.Tuple) else [t]):
                    out.add(key_of_target(e))
        elif isinstance(s, ast.AugAssign):
            out.add(key_of_target(s.target))
        elif isinstance(s, ast.Expr) and isinstance(s.value, ast.Call) and isinstance(s.value.func, ast.Attribute) \
                and s.value.func.attr == "append":
            out.add(key_of_target(s.value.func.value))
        elif isinstance(s, ast.If):
            out |= assigned(s.body) | assigned(s.orelse)
        elif isinstance(s, ast.For):
            out |= assigned(s.body)
            for e in (s.target.elts if isinstance(s.target, ast.Tuple) else [s.target]):
                out.add(key_of_target(e))
    return out


class Fn:
    """Translate one function (or fragment) body."""

    def __init__(self, tr, name, ret_hint=None):
        self.tr = tr
        self.name = name
        self.n = 0
        self.ret = ret_hint
        self.real = False

    def fresh(self):
        self.n += 1
        return "t__%d" % self.n

    def err(self, msg, node=None):
        where = " (line %d)" % node.lineno if node is not None and hasattr(node, "lineno") else ""
        raise TranslationError("%s%s: %s" % (self.name, where, msg))

    # ------------------------------------------------------------- expressions
    # ex() returns (pure Gallina code, type); fallible sub-terms are appended to `pre` as (pattern, code)
    def ex(self, node, env, pre):
        if isinstance(node, ast.Constant):
            v = node.value
            if isinstance(v, bool):
                return ("true" if v else "false"), B
            if isinstance(v, int):
                return "(%d)" % v, Z
            if isinstance(v, str):
                return self.tr.strcode(v), S
            self.err("constant %r" % (v,), node)
        if isinstance(node, ast.Name):
            if node.id not in env:
                self.err("unknown name %s" % node.id, node)
            return mangle(node.id), env[node.id]
        if isinstance(node, ast.Attribute):
            if isinstance(node.value, ast.Name) and node.value.id == "self" and ("self." + node.attr) in env:
                return mangle("self." + node.attr), env["self." + node.attr]
            self.err("attribute " + ast.unparse(node), node)
        if isinstance(node, ast.UnaryOp):
            c, t = self.ex(node.operand, env, pre)
            if isinstance(node.op, ast.USub) and t in (Z, B):
                return "(- %s)" % self.as_int(c, t), Z
            if isinstance(node.op, ast.Not) and t == B:
                return "(negb %s)" % c, B
            self.err("unary operator", node)
        if isinstance(node, ast.BinOp):
            return self.binop(node, env, pre)
        if isinstance(node, ast.BoolOp):
            op = "&&" if isinstance(node.op, ast.And) else "||"
            parts = []
            for k, v in enumerate(node.values):
                n0 = len(pre)
                c, t = self.ex(v, env, pre)
                if t != B:
                    self.err("non-boolean operand of and/or", node)
                if k > 0 and len(pre) != n0:
                    self.err("fallible operand after a short-circuit operator", node)
                parts.append(c)
            return "(" + (" %s " % op).join(parts) + ")", B
        if isinstance(node, ast.Compare):
            return self.compare(node, env, pre)
        if isinstance(node, ast.Subscript):
            return self.subscript(node, env, pre)
        if isinstance(node, ast.List) or isinstance(node, ast.Tuple):
            items = [self.ex(e, env, pre) for e in node.elts]
            ts = set(t for _, t in items)
            if len(ts) > 1:
                self.err("heterogeneous list / tuple display", node)
            t = ts.pop() if ts else Z
            return "[" + "; ".join(c for c, _ in items) + "]", TL(t)
        if isinstance(node, (ast.ListComp, ast.GeneratorExp)):
            return self.comp(node, env, pre)
        if isinstance(node, ast.Call):
            return self.call(node, env, pre)
        self.err("expression " + ast.dump(node)[:120], node)

    def as_int(self, c, t):
        if t == Z:
            return c
        if t == B:
            return "(py_b2z %s)" % c
        raise TranslationError("%s: integer expected, got %s" % (self.name, t))

    def binop(self, node, env, pre):
        lc, lt = self.ex(node.left, env, pre)
        rc, rt = self.ex(node.right, env, pre)
        op = type(node.op)
        ints = (Z, B)
        if lt in ints and rt in ints:
            a, b = self.as_int(lc, lt), self.as_int(rc, rt)
            if op in (ast.Add, ast.Sub, ast.Mult):
                return "(%s %s %s)" % (a, {ast.Add: "+", ast.Sub: "-", ast.Mult: "*"}[op], b), Z
            if op in (ast.FloorDiv, ast.Mod):
                r = node.right
                if isinstance(r, ast.Constant) and isinstance(r.value, int) and not isinstance(r.value, bool) and r.value != 0:
                    return "(%s %s %s)" % (a, "/" if op is ast.FloorDiv else "mod", b), Z     # literal non-zero divisor
                t = self.fresh()
                pre.append((t, "py_floordiv %s %s" % (a, b) if op is ast.FloorDiv else "py_mod %s %s" % (a, b)))
                return t, Z
            self.err("integer operator %s" % op.__name__, node)
        if op is ast.Add and isinstance(lt, tuple) and lt[0] == "list" and lt == rt:
            return "(%s ++ %s)" % (lc, rc), lt
        if op is ast.Mult and isinstance(lt, tuple) and lt[0] == "list" and rt in ints:
            return "(py_repeat %s %s)" % (lc, self.as_int(rc, rt)), lt
        if op is ast.Mult and lt == R and rt in ints:
            self.real = True
            return "(cmul %s (cofZ %s))" % (lc, self.as_int(rc, rt)), R
        self.err("operator %s on %s, %s" % (op.__name__, lt, rt), node)

    def compare(self, node, env, pre):
        if len(node.ops) != 1:
            self.err("chained comparison", node)
        op, rhs = type(node.ops[0]), node.comparators[0]
        if op in (ast.Is, ast.IsNot):
            if not is_none(rhs):
                self.err("`is` with something other than None", node)
            c, t = self.ex(node.left, env, pre)
            if not (isinstance(t, tuple) and t[0] == "opt"):
                self.err("`is None` on a non-optional value", node)
            c = "(py_is_none %s)" % c
            return (c if op is ast.Is else "(negb %s)" % c), B
        lc, lt = self.ex(node.left, env, pre)
        rc, rt = self.ex(rhs, env, pre)
        if op in (ast.In, ast.NotIn):
            if lt != Z or rt != L:
                self.err("`in` on %s, %s" % (lt, rt), node)
            c = "(py_in %s %s)" % (lc, rc)
            return (c if op is ast.In else "(negb %s)" % c), B
        if lt in (Z, B) and rt in (Z, B):
            a, b = self.as_int(lc, lt), self.as_int(rc, rt)
            ops = {ast.Eq: "(%s =? %s)", ast.NotEq: "(negb (%s =? %s))", ast.Lt: "(%s <? %s)", ast.LtE: "(%s <=? %s)",
                   ast.Gt: "(%s >? %s)", ast.GtE: "(%s >=? %s)"}
            if op not in ops:
                self.err("comparison operator", node)
            return ops[op] % (a, b), B
        if lt == S and rt == S and op in (ast.Eq, ast.NotEq):
            c = "(%s =? %s)" % (lc, rc)
            return (c if op is ast.Eq else "(negb %s)" % c), B
        if lt == L and rt == L and op in (ast.Eq, ast.NotEq):
            c = "(zlist_eqb %s %s)" % (lc, rc)
            return (c if op is ast.Eq else "(negb %s)" % c), B
        self.err("comparison of %s and %s" % (lt, rt), node)

    def subscript(self, node, env, pre):
        c, t = self.ex(node.value, env, pre)
        if not (isinstance(t, tuple) and t[0] == "list"):
            self.err("subscript of a non-list (%s)" % (t,), node)
        sl = node.slice
        if isinstance(sl, ast.Slice):
            if sl.step is not None:
                self.err("slice step", node)
            parts = []
            for b in (sl.lower, sl.upper):
                if b is None:
                    parts.append("None")
                else:
                    bc, bt = self.ex(b, env, pre)
                    parts.append("(Some %s)" % self.as_int(bc, bt))
            return "(py_slice %s %s %s)" % (c, parts[0], parts[1]), t
        ic, it = self.ex(sl, env, pre)
        v = self.fresh()
        pre.append((v, "py_get %s %s" % (c, self.as_int(ic, it))))
        return v, t[1]

    # iteration source: returns (list code, [names], [types])
    def iter_src(self, target, it, env, pre):
        names = [e for e in (target.elts if isinstance(target, ast.Tuple) else [target])]
        for n in names:
            if not isinstance(n, ast.Name):
                self.err("iteration target", target)
        names = [n.id for n in names]
        if isinstance(it, ast.Call) and call_name(it) == "zip" and not it.keywords:
            if len(it.args) != len(names) or len(names) < 2:
                self.err("zip arity", it)
            codes, types = [], []
            for a in it.args:
                c, t = self.ex(a, env, pre)
                if not (isinstance(t, tuple) and t[0] == "list"):
                    self.err("zip of a non-list", it)
                codes.append(c)
                types.append(t[1])
            src = codes[-1]
            for c in reversed(codes[:-1]):
                src = "(combine %s %s)" % (c, src)
            return src, names, types
        if len(names) != 1:
            self.err("tuple target over a non-zip iterable", target)
        c, t = self.ex(it, env, pre)
        if not (isinstance(t, tuple) and t[0] == "list"):
            self.err("iteration over a non-list", it)
        return c, names, [t[1]]

    def comp(self, node, env, pre, want="list"):
        if len(node.generators) != 1 or node.generators[0].is_async:
            self.err("comprehension with several generators", node)
        g = node.generators[0]
        src, names, types = self.iter_src(g.target, g.iter, env, pre)
        env2 = dict(env)
        for n, t in zip(names, types):
            env2[n] = t
        fp = "fun %s => " % ("'" + pat([mangle(n) for n in names]) if len(names) > 1 else mangle(names[0]))
        for cond in g.ifs:
            p2 = []
            cc, ct = self.ex(cond, env2, p2)
            if p2 or ct != B:
                self.err("comprehension filter must be a pure boolean", node)
            src = "(filter (%s%s) %s)" % (fp, cc, src)
        p2 = []
        ec, et = self.ex(node.elt, env2, p2)
        if not p2:
            return "(map (%s%s) %s)" % (fp, ec, src), TL(et)
        v = self.fresh()
        pre.append((v, "py_mapM (%s%s) %s" % (fp, self.binds(p2, "Ok %s" % ec), src)))
        return v, TL(et)

    def call(self, node, env, pre):
        f = call_name(node)
        a = node.args
        if node.keywords:
            self.err("keyword arguments", node)
        if f == "len" and len(a) == 1:
            c, t = self.ex(a[0], env, pre)
            if not (isinstance(t, tuple) and t[0] == "list"):
                self.err("len of a non-list", node)
            return "(py_len %s)" % c, Z
        if f in ("list", "tuple") and len(a) == 1:
            c, t = self.ex(a[0], env, pre)
            if not (isinstance(t, tuple) and t[0] == "list"):
                self.err("%s() of a non-list" % f, node)
            return c, t
        if f in ("max", "min") and len(a) == 2:
            (c1, t1), (c2, t2) = self.ex(a[0], env, pre), self.ex(a[1], env, pre)
            return "(Z.%s %s %s)" % (f, self.as_int(c1, t1), self.as_int(c2, t2)), Z
        if f == "max" and len(a) == 1:
            c, t = self.ex(a[0], env, pre)
            if t != L:
                self.err("max of %s" % (t,), node)
            v = self.fresh()
            pre.append((v, "py_max_list %s" % c))
            return v, Z
        if f == "sorted" and len(a) == 1:
            c, t = self.ex(a[0], env, pre)
            if t != L:
                self.err("sorted of %s" % (t,), node)
            return "(py_sorted %s)" % c, L
        if f == "range" and len(a) == 1:
            c, t = self.ex(a[0], env, pre)
            return "(py_range %s)" % self.as_int(c, t), L
        if f in ("any", "all") and len(a) == 1:
            c, t = self.ex(a[0], env, pre)
            if t != TL(B):
                self.err("%s of %s" % (f, t), node)
            return "(%s (fun x__ => x__) %s)" % ("existsb" if f == "any" else "forallb", c), B
        if f == "util.prod" and len(a) == 1:
            c, t = self.ex(a[0], env, pre)
            if t != L:
                self.err("prod of %s" % (t,), node)
            return "(prodZ %s)" % c, Z
        if f == "ceil" and len(a) == 1:
            c, t = self.ex(a[0], env, pre)
            if t != R:
                self.err("ceil of a non-real", node)
            self.real = True
            return "(cceil %s)" % c, Z
        if f == "slice" and len(a) == 2:
            (c1, t1), (c2, t2) = self.ex(a[0], env, pre), self.ex(a[1], env, pre)
            return "(%s, %s)" % (self.as_int(c1, t1), self.as_int(c2, t2)), TT(Z, Z)
        callee = self.tr.callee(f, self)
        if callee is not None:
            gname, ptypes, vararg, rett, real = callee
            if vararg:
                items = [self.ex(x, env, pre) for x in a]
                for c, t in items:
                    if TL(t) != ptypes[0]:
                        self.err("argument type of %s" % f, node)
                args = ["[" + "; ".join(c for c, _ in items) + "]"]
            else:
                if len(a) != len(ptypes):
                    self.err("arity of %s" % f, node)
                args = []
                for x, pt in zip(a, ptypes):
                    if is_none(x) and isinstance(pt, tuple) and pt[0] == "opt":
                        args.append("None")
                        continue
                    c, t = self.ex(x, env, pre)
                    if TO(t) == pt:
                        c = "(Some %s)" % c
                    elif t != pt:
                        self.err("argument type of %s: %s for %s" % (f, t, pt), node)
                    args.append(c)
            v = self.fresh()
            pre.append((v, "%s %s%s" % (gname, "C " if real else "", " ".join(args))))
            if real:
                self.real = True
            return v, rett
        self.err("call of %s" % f, node)

    # ------------------------------------------------------------- statements
    def binds(self, pre, body):
        for p, c in reversed(pre):
            body = "pybind (%s) (fun %s =>\n  %s)" % (c, p, body)
        return body

    def blk(self, stmts, env, k):
        stmts = strip_doc(stmts)
        if not stmts:
            if k is None:
                self.err("control reaches the end of a block that must return")
            return k(env)
        s, rest = stmts[0], stmts[1:]

        def cont(env2):
            return self.blk(rest, env2, k)
        if isinstance(s, ast.Return):
            if rest:
                self.err("statements after return", s)
            if s.value is None:
                self.err("bare return", s)
            pre = []
            if isinstance(s.value, ast.Tuple) and len(s.value.elts) > 1:
                items = [self.ex(e, env, pre) for e in s.value.elts]
                c, t = "(" + ", ".join(c for c, _ in items) + ")", TT(*[t for _, t in items])
            else:
                c, t = self.ex(s.value, env, pre)
            self.set_ret(t, s)
            return self.binds(pre, "Ok %s" % c)
        if isinstance(s, ast.Raise):
            if rest:
                self.err("statements after raise", s)
            return "Err E_py"
        if isinstance(s, ast.Expr) and isinstance(s.value, ast.Call):
            c = s.value
            if isinstance(c.func, ast.Attribute) and c.func.attr == "append" and len(c.args) == 1 and not c.keywords:
                key = key_of_target(c.func.value)
                if key not in env or not (isinstance(env[key], tuple) and env[key][0] == "list"):
                    self.err("append to a non-list", s)
                pre = []
                vc, vt = self.ex(c.args[0], env, pre)
                if vt != env[key][1]:
                    self.err("append of %s to %s" % (vt, env[key]), s)
                x = mangle(key)
                return self.binds(pre, "let %s := (%s ++ [%s]) in %s" % (x, x, vc, cont(env)))
            if ast.unparse(c.func) == "super().__init__" and len(c.args) == 2 and not c.keywords:
                if rest:
                    self.err("statements after super().__init__", s)
                pre = []
                (c1, t1), (c2, t2) = self.ex(c.args[0], env, pre), self.ex(c.args[1], env, pre)
                self.set_ret(TT(t1, t2), s)
                return self.binds(pre, "Ok (%s, %s)" % (c1, c2))
            self.err("expression statement " + ast.unparse(s)[:80], s)
        if isinstance(s, ast.Assign):
            return self.assign(s, env, cont)
        if isinstance(s, ast.AugAssign):
            return self.augassign(s, env, cont)
        if isinstance(s, ast.If):
            return self.if_(s, rest, env, k, cont)
        if isinstance(s, ast.For):
            return self.for_(s, env, cont)
        self.err("statement " + type(s).__name__, s)

    def set_ret(self, t, node):
        if self.ret is None:
            self.ret = t
        elif self.ret != t:
            self.err("return types differ: %s vs %s" % (self.ret, t), node)

    def assign(self, s, env, cont):
        if len(s.targets) != 1:
            self.err("chained assignment", s)
        tgt = s.targets[0]
        pre = []
        if isinstance(tgt, (ast.Name, ast.Attribute)):
            key = key_of_target(tgt)
            c, t = self.ex(s.value, env, pre)
            env2 = dict(env)
            env2[key] = t
            return self.binds(pre, "let %s := %s in %s" % (mangle(key), c, cont(env2)))
        if isinstance(tgt, ast.Subscript):
            key = key_of_target(tgt.value) if isinstance(tgt.value, (ast.Name, ast.Attribute)) else None
            if key is None or key not in env or isinstance(tgt.slice, ast.Slice):
                self.err("subscript store", s)
            ic, it = self.ex(tgt.slice, env, pre)
            vc, vt = self.ex(s.value, env, pre)
            if env[key] != TL(vt):
                self.err("store of %s into %s" % (vt, env[key]), s)
            x = mangle(key)
            pre.append((x, "py_set %s %s %s" % (x, self.as_int(ic, it), vc)))
            return self.binds(pre, cont(env))
        if isinstance(tgt, ast.Tuple):
            if all(isinstance(e, ast.Name) for e in tgt.elts):
                names = [e.id for e in tgt.elts]
                c, t = self.ex(s.value, env, pre)
                env2 = dict(env)
                if isinstance(t, tuple) and t[0] == "tup" and len(t[1]) == len(names):
                    for n, ti in zip(names, t[1]):
                        env2[n] = ti
                    return self.binds(pre, "let '(%s) := %s in %s" % (", ".join(mangle(n) for n in names), c, cont(env2)))
                if isinstance(t, tuple) and t[0] == "list" and len(names) == 2:
                    for n in names:
                        env2[n] = t[1]
                    pre.append(("'(%s, %s)" % (mangle(names[0]), mangle(names[1])), "py_unpack2 %s" % c))
                    return self.binds(pre, cont(env2))
                self.err("unpacking of %s into %d names" % (t, len(names)), s)
            if all(isinstance(e, ast.Subscript) for e in tgt.elts) and isinstance(s.value, ast.Tuple) \
                    and len(s.value.elts) == len(tgt.elts):
                # a[i], a[j] = e1, e2 : right-hand sides first (left to right), then the stores left to right
                vals = []
                for e in s.value.elts:
                    vc, vt = self.ex(e, env, pre)
                    if not vc.startswith("t__"):
                        v = self.fresh()
                        pre.append((v, "Ok %s" % vc))
                        vc = v
                    vals.append((vc, vt))
                for e, (vc, vt) in zip(tgt.elts, vals):
                    key = key_of_target(e.value) if isinstance(e.value, (ast.Name, ast.Attribute)) else None
                    if key is None or key not in env or isinstance(e.slice, ast.Slice) or env[key] != TL(vt):
                        self.err("subscript store in tuple assignment", s)
                    ic, it = self.ex(e.slice, env, pre)
                    x = mangle(key)
                    pre.append((x, "py_set %s %s %s" % (x, self.as_int(ic, it), vc)))
                return self.binds(pre, cont(env))
        self.err("assignment form " + ast.unparse(s)[:80], s)

    def augassign(self, s, env, cont):
        if not isinstance(s.op, ast.Add):
            self.err("augmented assignment other than +=", s)
        pre = []
        tgt = s.target
        if isinstance(tgt, (ast.Name, ast.Attribute)):
            key = key_of_target(tgt)
            if key not in env:
                self.err("+= on an unbound name", s)
            vc, vt = self.ex(s.value, env, pre)
            x = mangle(key)
            if env[key] == Z and vt in (Z, B):
                return self.binds(pre, "let %s := (%s + %s) in %s" % (x, x, self.as_int(vc, vt), cont(env)))
            if isinstance(env[key], tuple) and env[key][0] == "list" and vt == env[key]:
                return self.binds(pre, "let %s := (%s ++ %s) in %s" % (x, x, vc, cont(env)))
            self.err("+= of %s to %s" % (vt, env[key]), s)
        if isinstance(tgt, ast.Subscript) and isinstance(tgt.value, (ast.Name, ast.Attribute)) \
                and not isinstance(tgt.slice, ast.Slice):
            key = key_of_target(tgt.value)
            if key not in env or env[key] != L:
                self.err("x[i] += on a non integer list", s)
            x = mangle(key)
            ic, it = self.ex(tgt.slice, env, pre)
            ic = self.as_int(ic, it)
            old = self.fresh()
            pre.append((old, "py_get %s %s" % (x, ic)))
            vc, vt = self.ex(s.value, env, pre)
            pre.append((x, "py_set %s %s (%s + %s)" % (x, ic, old, self.as_int(vc, vt))))
            return self.binds(pre, cont(env))
        self.err("augmented assignment form", s)

    def if_(self, s, rest, env, k, cont):
        test = s.test
        narrow = None
        if isinstance(test, ast.Compare) and len(test.ops) == 1 and isinstance(test.ops[0], (ast.Is, ast.IsNot)) \
                and is_none(test.comparators[0]) and isinstance(test.left, ast.Name) and test.left.id in env \
                and isinstance(env[test.left.id], tuple) and env[test.left.id][0] == "opt":
            narrow = (test.left.id, isinstance(test.ops[0], ast.IsNot))
        env_t, env_e = dict(env), dict(env)
        pre = []
        if narrow:
            x, isnot = narrow
            (env_t if isnot else env_e)[x] = env[x][1]

            def wrap(ct, ce):
                cn, cs = (ce, ct) if isnot else (ct, ce)
                return "match %s with None => %s | Some %s => %s end" % (mangle(x), cn, mangle(x), cs)
        else:
            tc, tt_ = self.ex(test, env, pre)
            if tt_ != B:
                self.err("non-boolean condition", s)

            def wrap(ct, ce):
                return self.binds(pre, "if %s then %s else %s" % (tc, ct, ce))
        tb, eb = strip_doc(s.body), strip_doc(s.orelse)
        t_term, e_term = terminates(tb), terminates(eb)
        if t_term and e_term:
            if rest:
                self.err("dead code after if", s)
            return wrap(self.blk(tb, env_t, None), self.blk(eb, env_e, None))
        if t_term:
            return wrap(self.blk(tb, env_t, None), self.blk(eb, env_e, lambda e2: self.blk(rest, e2, k)))
        if e_term:
            return wrap(self.blk(tb, env_t, lambda e2: self.blk(rest, e2, k)), self.blk(eb, env_e, None))
        at, ae = assigned(tb), assigned(eb)
        outs = sorted(v for v in (at | ae) if (v in env_t and v in env_e) or (v in at and v in ae))
        seen = []

        def kmerge(e2):
            for v in outs:
                if v not in e2:
                    self.err("%s is not bound on every path of the if" % v, s)
            seen.append([e2[v] for v in outs])
            return "Ok %s" % tup([mangle(v) for v in outs])
        ct = self.blk(tb, env_t, kmerge)
        ce = self.blk(eb, env_e, kmerge)
        if len(seen) < 2 or any(x != seen[0] for x in seen):
            self.err("branches of the if give different types to %s" % outs, s)
        env2 = dict(env)
        for v, t in zip(outs, seen[0]):
            env2[v] = t
        return "pybind (%s) (fun %s =>\n  %s)" % (wrap(ct, ce), funpat([mangle(v) for v in outs]), cont(env2))

    def for_(self, s, env, cont):
        if s.orelse:
            self.err("for ... else", s)
        for n in ast.walk(s):
            if isinstance(n, (ast.Return, ast.Break, ast.Continue, ast.While)):
                self.err("return / break / continue inside a loop", s)
        pre = []
        src, names, types = self.iter_src(s.target, s.iter, env, pre)
        for n in names:
            if n in env:
                self.err("loop variable %s rebinds an existing name" % n, s)
        state = sorted(v for v in assigned(s.body) if v in env)
        env2 = dict(env)
        for n, t in zip(names, types):
            env2[n] = t
        sp = funpat([mangle(v) for v in state])
        ep = "'" + pat([mangle(n) for n in names]) if len(names) > 1 else mangle(names[0])

        def kbody(e2):
            for v in state:
                if e2.get(v) != env[v]:
                    self.err("loop changes the type of %s" % v, s)
            return "Ok %s" % tup([mangle(v) for v in state])
        body = self.blk(s.body, env2, kbody)
        init = tup([mangle(v) for v in state])
        code = "pybind (py_foldM (fun %s %s =>\n  %s)\n  %s %s) (fun %s =>\n  %s)" % (sp, ep, body, init, src, sp, cont(env))
        return self.binds(pre, code)


# ------------------------------------------------------------------ the job
PRELUDE = r"""From Coq Require Import ZArith List Bool.
From SV Require Import lib.Scalar lib.LoopIR lib.NdArray lib.Coord model.Block.
Import ListNotations.
Local Open Scope Z_scope.

(* ---------------- PRELUDE (fixed text): the reading of the Python primitives ---------------- *)
Definition E_py := 90%nat.           (* any python exception; agreement is stated modulo the error code *)
Definition pybind {A B} (r : result A) (f : A -> result B) : result B :=
  match r with Ok a => f a | Err e => Err e end.
Definition py_len {A} (l : list A) : Z := Z.of_nat (length l).
(* l[k]: negative k counts from the end; out of range = IndexError *)
Definition py_idx (n k : Z) : option nat :=
  let k' := if k <? 0 then k + n else k in
  if (0 <=? k') && (k' <? n) then Some (Z.to_nat k') else None.
Definition py_get {A} (l : list A) (k : Z) : result A :=
  match py_idx (py_len l) k with
  | Some j => match nth_error l j with Some a => Ok a | None => Err E_py end
  | None => Err E_py
  end.
Fixpoint py_set_nth {A} (l : list A) (j : nat) (v : A) : list A :=
  match l, j with
  | [], _ => []
  | _ :: t, O => v :: t
  | x :: t, S j' => x :: py_set_nth t j' v
  end.
Definition py_set {A} (l : list A) (k : Z) (v : A) : result (list A) :=
  match py_idx (py_len l) k with Some j => Ok (py_set_nth l j v) | None => Err E_py end.
(* l[lo:hi]: negative bounds count from the end, then both are clamped to [0, len] *)
Definition py_clamp (n k : Z) : Z := let k' := if k <? 0 then k + n else k in Z.max 0 (Z.min k' n).
Definition py_slice {A} (l : list A) (lo hi : option Z) : list A :=
  let n := py_len l in
  let a := match lo with None => 0 | Some k => py_clamp n k end in
  let b := match hi with None => n | Some k => py_clamp n k end in
  firstn (Z.to_nat (b - a)) (skipn (Z.to_nat a) l).
Definition py_repeat {A} (l : list A) (k : Z) : list A := concat (repeat l (Z.to_nat k)).   (* l * k *)
Definition py_range (n : Z) : list Z := zrange 0 n 1.
Definition py_floordiv (a b : Z) : result Z := if b =? 0 then Err E_py else Ok (a / b).      (* ZeroDivisionError *)
Definition py_mod (a b : Z) : result Z := if b =? 0 then Err E_py else Ok (a mod b).
Definition py_max_list (l : list Z) : result Z :=
  match l with [] => Err E_py | x :: r => Ok (fold_left Z.max r x) end.
Fixpoint py_insert (x : Z) (l : list Z) : list Z :=
  match l with [] => [x] | y :: r => if x <=? y then x :: l else y :: py_insert x r end.
Definition py_sorted (l : list Z) : list Z := fold_right py_insert [] l.
Fixpoint py_mapM {A B} (f : A -> result B) (l : list A) : result (list B) :=
  match l with
  | [] => Ok []
  | a :: l' => pybind (f a) (fun b => pybind (py_mapM f l') (fun bs => Ok (b :: bs)))
  end.
(* a `for` loop: the state is the tuple of variables the body assigns *)
Fixpoint py_foldM {S A} (f : S -> A -> result S) (s : S) (l : list A) : result S :=
  match l with [] => Ok s | a :: l' => pybind (f s a) (fun s' => py_foldM f s' l') end.
Definition py_in (a : Z) (l : list Z) : bool := existsb (Z.eqb a) l.
Definition py_b2z (b : bool) : Z := if b then 1 else 0.
Definition py_unpack2 {A} (l : list A) : result (A * A) := match l with [a; b] => Ok (a, b) | _ => Err E_py end.
Definition py_is_none {A} (o : option A) : bool := match o with None => true | Some _ => false end.
(* ---------------- end of PRELUDE ---------------- *)

"""

# kind: "def" whole function; "init" class __init__ up to super().__init__(oshape, ishape);
#       "expr" the right-hand side of the unique `var = <expr>` in the function; "test" the test of the first `if`
JOBSPEC = [
    dict(name="expand_shapes", file="util.py", kind="def", py="_expand_shapes", params=[("shapes", LL)], vararg=True),
    dict(name="normalize_axes", file="util.py", kind="def", py="_normalize_axes", params=[("axes", OL), ("ndim", Z)]),
    dict(name="resize_is_reshape", file="util.py", kind="test", py="resize",
         params=[("ishape1", L), ("oshape1", L), ("ishift", OL), ("oshift", OL)]),
    dict(name="resize_ishift", file="util.py", kind="expr", py="resize", var="ishift", params=[("ishape1", L), ("oshape1", L)]),
    dict(name="resize_oshift", file="util.py", kind="expr", py="resize", var="oshift", params=[("ishape1", L), ("oshape1", L)]),
    dict(name="resize_copy_shape", file="util.py", kind="expr", py="resize", var="copy_shape",
         params=[("ishape1", L), ("ishift", L), ("oshape1", L), ("oshift", L)]),
    dict(name="resize_islice", file="util.py", kind="expr", py="resize", var="islice", params=[("ishift", L), ("copy_shape", L)]),
    dict(name="resize_oslice", file="util.py", kind="expr", py="resize", var="oslice", params=[("oshift", L), ("copy_shape", L)]),
    dict(name="hstack_params", file="linop.py", kind="def", py="_hstack_params", params=[("shapes", LL), ("axis", OZ)]),
    dict(name="vstack_params", file="linop.py", kind="def", py="_vstack_params", params=[("shapes", LL), ("axis", OZ)]),
    dict(name="matmul_oshape", file="linop.py", kind="def", py="_get_matmul_oshape",
         params=[("ishape", L), ("mshape", L), ("adjoint", B)]),
    dict(name="matmul_adjoint_sum_axes", file="linop.py", kind="def", py="_get_matmul_adjoint_sum_axes",
         params=[("oshape", L), ("ishape", L), ("mshape", L)]),
    dict(name="right_matmul_oshape", file="linop.py", kind="def", py="_get_right_matmul_oshape",
         params=[("ishape", L), ("mshape", L), ("adjoint", B)]),
    dict(name="multiply_oshape", file="linop.py", kind="def", py="_get_multiply_oshape", params=[("ishape", L), ("mshape", L)]),
    dict(name="multiply_adjoint_sum_axes", file="linop.py", kind="def", py="_get_multiply_adjoint_sum_axes",
         params=[("oshape", L), ("ishape", L), ("mshape", L)]),
    dict(name="Downsample_init", file="linop.py", kind="init", py="Downsample",
         params=[("ishape", L), ("factors", L), ("shift", OL)]),
    dict(name="Upsample_init", file="linop.py", kind="init", py="Upsample",
         params=[("oshape", L), ("factors", L), ("shift", OL)]),
    dict(name="Sum_init", file="linop.py", kind="init", py="Sum", params=[("ishape", L), ("axes", L)]),
    dict(name="Tile_init", file="linop.py", kind="init", py="Tile", params=[("oshape", L), ("axes", L)]),
    dict(name="ArrayToBlocks_init", file="linop.py", kind="init", py="ArrayToBlocks",
         params=[("ishape", L), ("blk_shape", L), ("blk_strides", L)]),
    dict(name="BlocksToArray_init", file="linop.py", kind="init", py="BlocksToArray",
         params=[("oshape", L), ("blk_shape", L), ("blk_strides", L)]),
    dict(name="convolve_params", file="conv.py", kind="def", py="_get_convolve_params",
         params=[("data_shape", L), ("filt_shape", L), ("mode", S), ("strides", OL), ("multi_channel", B)]),
    dict(name="oversamp_shape", file="fourier.py", kind="def", py="_get_oversamp_shape",
         params=[("shape", L), ("ndim", Z), ("oversamp", R)]),
]
# how a call inside one translated function names another one
CALL_ALIASES = {"util._expand_shapes": "expand_shapes", "_expand_shapes": "expand_shapes",
                "_hstack_params": "hstack_params", "_vstack_params": "vstack_params"}
SKIPPED = []   # (python function, reason) — nothing is skipped at present; kept so a skip is always recorded in the output


class Translator:
    def __init__(self, repo):
        self.repo = repo
        self.trees, self.shas = {}, {}
        self.strings = {}
        self.done = {}     # name -> (gen name, ptypes, vararg, ret type, real)
        self.out = []

    def tree(self, f):
        if f not in self.trees:
            src = open("%s/sigpy/%s" % (self.repo, f)).read()
            self.shas[f] = hashlib.sha256(src.encode()).hexdigest()
            self.trees[f] = ast.parse(src)
        return self.trees[f]

    def strcode(self, s):
        if not s.isalnum():
            raise TranslationError("string literal %r" % s)
        if s not in self.strings:
            self.strings[s] = len(self.strings)
        return "py_str_%s" % s

    def callee(self, f, caller):
        name = CALL_ALIASES.get(f)
        if name is None:
            return None
        if name not in self.done:
            raise TranslationError("%s calls %s before it is translated" % (caller.name, f))
        return self.done[name]

    def find_def(self, tree, name, cls=None):
        body = tree.body
        if cls is not None:
            cs = [c for c in body if isinstance(c, ast.ClassDef) and c.name == cls]
            if len(cs) != 1:
                raise TranslationError("class %s not found exactly once" % cls)
            body = cs[0].body
        fs = [f for f in body if isinstance(f, ast.FunctionDef) and f.name == name]
        if len(fs) != 1:
            raise TranslationError("%s%s not found exactly once" % (cls + "." if cls else "", name))
        return fs[0]

    def check_sig(self, fn, spec, skip_self=False):
        a = fn.args
        names = [x.arg for x in a.args][1 if skip_self else 0:]
        if a.kwonlyargs or a.kwarg or a.posonlyargs:
            raise TranslationError("%s: unsupported signature" % spec["name"])
        if spec.get("vararg"):
            if names or a.vararg is None or a.vararg.arg != spec["params"][0][0]:
                raise TranslationError("%s: expected a single *%s" % (spec["name"], spec["params"][0][0]))
            return
        if a.vararg is not None or names != [p for p, _ in spec["params"]]:
            raise TranslationError("%s: signature changed: %s" % (spec["name"], names))
        ndef = len(a.defaults)
        for n, d in zip(names[len(names) - ndef:], a.defaults):
            t = dict(spec["params"])[n]
            if not (is_none(d) and isinstance(t, tuple) and t[0] == "opt"):
                raise TranslationError("%s: default of %s not representable" % (spec["name"], n))
        for n in names[:len(names) - ndef]:
            pass

    def emit(self, spec, body, F, params=None):
        params = params or spec["params"]
        real = F.real or any(uses_real(t) for _, t in params)
        binders = " ".join("(%s : %s)" % (mangle(n), coqty(t)) for n, t in params)
        gname = "gen_" + spec["name"]
        self.out.append("(* %s: %s %s *)" % (spec["file"], spec["kind"], spec["py"] + ("." + spec["var"] if "var" in spec else "")))
        self.out.append("Definition %s %s%s : result %s :=\n  %s.\n" % (gname, "(C : COps) " if real else "", binders, coqty(F.ret), body))
        self.done[spec["name"]] = (gname, [t for _, t in params], bool(spec.get("vararg")), F.ret, real)

    def job(self, spec):
        tree = self.tree(spec["file"])
        env = dict(spec["params"])
        F = Fn(self, spec["name"])
        kind = spec["kind"]
        if kind == "def":
            fn = self.find_def(tree, spec["py"])
            self.check_sig(fn, spec)
            stmts = strip_doc(fn.body)
            # `if p is None: return <self>(..., <int literal>)` on an optional parameter p: the function is split into
            # the body for a given p (a structurally non-recursive definition) and the dispatch on None
            opt = [n for n, t in spec["params"] if isinstance(t, tuple) and t[0] == "opt"]
            s0 = stmts[0] if stmts else None
            if isinstance(s0, ast.If) and not s0.orelse and len(s0.body) == 1 and isinstance(s0.body[0], ast.Return) \
                    and isinstance(s0.body[0].value, ast.Call) and call_name(s0.body[0].value) == spec["py"]:
                t = s0.test
                if not (isinstance(t, ast.Compare) and len(t.ops) == 1 and isinstance(t.ops[0], ast.Is) and is_none(t.comparators[0])
                        and isinstance(t.left, ast.Name) and t.left.id in opt):
                    raise TranslationError("%s: recursive call outside the `is None` dispatch" % spec["name"])
                p = t.left.id
                for n in ast.walk(ast.Module(body=stmts[1:], type_ignores=[])):
                    if isinstance(n, ast.Call) and call_name(n) == spec["py"]:
                        raise TranslationError("%s: recursion in the main body" % spec["name"])
                inner = dict(spec, name=spec["name"] + "_some")
                iparams = [(n, (ty[1] if n == p else ty)) for n, ty in spec["params"]]
                Fi = Fn(self, inner["name"])
                body = Fi.blk(stmts[1:], dict(iparams), None)
                self.emit(inner, body, Fi, iparams)
                # dispatch
                call = s0.body[0].value
                if call.keywords or len(call.args) != len(iparams):
                    raise TranslationError("%s: recursive call arity" % spec["name"])
                pre, args = [], []
                for a, (n, ty) in zip(call.args, iparams):
                    if n == p and not (isinstance(a, ast.Constant) and isinstance(a.value, int) and not isinstance(a.value, bool)):
                        raise TranslationError("%s: recursive call must pass an integer literal for %s" % (spec["name"], p))
                    c, tyc = F.ex(a, env, pre)
                    if tyc != ty:
                        raise TranslationError("%s: recursive call argument type" % spec["name"])
                    args.append(c)
                F.ret = Fi.ret
                F.real = Fi.real
                none_code = F.binds(pre, "gen_%s %s" % (inner["name"], " ".join(args)))
                some_code = "gen_%s %s" % (inner["name"], " ".join(mangle(n) for n, _ in iparams))
                body = "match %s with None => %s | Some %s => %s end" % (mangle(p), none_code, mangle(p), some_code)
                self.emit(spec, body, F)
                return
            for n in ast.walk(fn):
                if isinstance(n, ast.Call) and call_name(n) == spec["py"]:
                    raise TranslationError("%s: recursion" % spec["name"])
            self.emit(spec, F.blk(stmts, env, None), F)
        elif kind == "init":
            fn = self.find_def(tree, "__init__", cls=spec["py"])
            self.check_sig(fn, spec, skip_self=True)
            self.emit(spec, F.blk(fn.body, env, None), F)
        elif kind in ("expr", "test"):
            fn = self.find_def(tree, spec["py"])
            if kind == "expr":
                hits = [n for n in ast.walk(fn) if isinstance(n, ast.Assign) and len(n.targets) == 1
                        and isinstance(n.targets[0], ast.Name) and n.targets[0].id == spec["var"]]
                if len(hits) != 1:
                    raise TranslationError("%s: `%s = ...` not found exactly once in %s" % (spec["name"], spec["var"], spec["py"]))
                node = hits[0].value
                # tuple([...]) wrapper
                if isinstance(node, ast.Call) and call_name(node) in ("tuple", "list") and len(node.args) == 1:
                    node = node.args[0]
            else:
                ifs = [s for s in strip_doc(fn.body) if isinstance(s, ast.If)]
                if not ifs:
                    raise TranslationError("%s: no if in %s" % (spec["name"], spec["py"]))
                node = ifs[0].test
            free = {n.id for n in ast.walk(node) if isinstance(n, ast.Name) and isinstance(n.ctx, ast.Load)}
            bound = {n.id for n in ast.walk(node) if isinstance(n, ast.Name) and isinstance(n.ctx, ast.Store)}
            builtin = {"zip", "max", "min", "slice", "len", "range"}
            if (free - bound - builtin) != set(env):
                raise TranslationError("%s: free variables are %s, expected %s" % (spec["name"], sorted(free - bound - builtin), sorted(env)))
            pre = []
            c, t = F.ex(node, env, pre)
            F.ret = t
            self.emit(spec, F.binds(pre, "Ok %s" % c), F)
        else:
            raise TranslationError("job kind " + kind)

    def run(self):
        for spec in JOBSPEC:
            self.job(spec)
        head = ["(* Gen_shapes.v — GENERATED by tools/translate_shapes.py. Do not edit.",
                "   Integer shape / parameter functions of sigpy as written in the source; coq/proofs/ShapesTie.v ties them",
                "   to the hand models.  Sources:"]
        for f in sorted(self.shas):
            head.append("     sigpy/%s sha256 %s" % (f, self.shas[f]))
        for fn, why in SKIPPED:
            head.append("   SKIPPED %s: %s" % (fn, why))
        head.append("*)")
        strs = ["Definition py_str_%s : Z := %d.   (* the string literal \"%s\" *)" % (s, k, s)
                for s, k in sorted(self.strings.items(), key=lambda kv: kv[1])]
        return "\n".join(head) + "\n" + PRELUDE + "\n".join(strs) + ("\n\n" if strs else "") + "\n".join(self.out) + "\n"


def translate_shapes(repo):
    return Translator(repo).run()


if __name__ == "__main__":
    import sys
    sys.stdout.write(translate_shapes(sys.argv[1] if len(sys.argv) > 1 else "/repo"))
