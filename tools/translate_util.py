#!/usr/bin/env python3
"""Fail-closed translator: the rearrangement functions of sigpy/util.py (Python `ast`) -> Gallina.

From the SOURCE TEXT of util.py it regenerates, on every run, Gallina definitions of

    _normalize_axes, _expand_shapes (the two-shape call), resize, flip, circshift, downsample, upsample
    (and the shape of downsample's result)

written over the SAME representation as the hand model coq/model/Rearrange.v -- an array is a shape (list Z) and a
function `list Z -> R` (R : Ops), a rearrangement is a per-axis list of partial index maps (lib/Gather.axmap) applied by
`gatherN`; numpy.roll and reshape are the model's `roll` and `reshape` -- each followed by a machine-checked lemma

    Lemma gen_<f>_ok : forall ..., gen_<f> ... = <hand model definition> ... .

proved by unfolding, case analysis on the option arguments and on the list-equality test, and `reflexivity`.  A change of
the source (a swapped shift, `max` for `min`, a dropped `% ndim`, the early return of resize without the `is None`
tests, `slice(s % f, None, f)`, a dropped `dtype=input.dtype`, ...) either is outside the accepted fragment
(TranslationError naming the line: FAIL CLOSED) or produces a different term, and the lemma no longer compiles.

How a function is read (details and the numpy semantics trusted: notes/translate_util.md):
  * an array argument is a pair (shape : list Z, data : list Z -> R); `.shape`, `.ndim`, `.reshape(s)`, `.dtype`;
  * tuples / lists of ints are `list Z`; a comprehension over `zip(..)` of such lists is kept SYMBOLIC (sources + element
    expression) and fused into the comprehension that consumes it, so `copy_shape`, `islice`, `oslice` of resize end up
    as ONE per-axis function over the opaque lists they are computed from (parameters, results of helper calls,
    `x = default if x is None`); when a list of ints is needed as a value it is `map` / `zip2` / `zip4` of the model;
    the zipped lists are ordered by the place where they were bound (parameters first);
  * `if x is None: x = e` (x an optional tuple parameter) is the join `match x with Some l => l | None => e end`;
    `if c: return e` is `if c then e else <rest>` (a lone `x is None` test: `match x with ..`);
  * slices: `a[tuple of slices]` is `gatherN <per-axis maps> a`; `zeros[osl] = a[isl]` (windows of one common length)
    and `zeros[sl] = a` (strided) are gathers with partial maps; a slice tuple built by `zip` of lists that do not
    include the array's own shape covers the LEADING axes, the remaining axes are whole (`zip2_pad`);
  * `for d in range(a.ndim): <one append to slc per path>` is the comprehension over (d, a.shape[d]) -> `mapi`;
    `for u, v in zip(A, B): a = xp.roll(a, ..)` is the fold `loop_zip2` over the zipped lists.

Entry points: translate_util(repo[, path]) -> text of gen/Gen_util.v; translate_source(src); tie(ctx) for props/C09.py;
tools/test_translate_util.py is the self-test (mutations of a copy of util.py).
"""
import ast
import hashlib
import os
import re
import sys


class TranslationError(Exception):
    pass


SRC_REL = "sigpy/util.py"
KV = "k__"                                   # bound variable of the generated per-axis maps

RESERVED = {
    # Coq
    "by", "at", "in", "as", "end", "fun", "let", "if", "then", "else", "with", "using", "return", "fix", "cofix", "match",
    "forall", "exists", "where", "for", "mod", "Set", "Prop", "Type", "IF", "R", "Z", "N", "S", "O", "nat", "list", "bool",
    "option", "Some", "None", "true", "false", "map", "app", "nil", "cons", "repeat", "length", "negb", "andb", "orb",
    # lib / model/Rearrange.v / the preamble of the generated file
    "Ops", "farr", "reshape", "expand_shapes", "zip4", "zip2", "resize_ax", "default_ishift", "default_oshift", "resize",
    "normalize_axes", "memZ", "mapi", "mapi_aux", "flip", "roll", "circshift_loop", "circshift", "down_axes", "downsample",
    "downsample_oshape", "up_axes", "upsample", "gatherN", "axmap", "map_axes", "zrange", "zlist_eqb", "ravel", "unravel",
    "zero", "zip2_pad", "zip2_pad_shape", "loop_zip2", "is_none", "tie", "tie_opts", "tie_tests",
}
# names the reading relies on (builtins and the module `backend`): rebinding one of them anywhere fails closed
BUILTINS = {"max", "min", "len", "range", "tuple", "list", "sorted", "zip", "slice"}


class V:
    """symbolic value"""

    def __init__(self, kind, term=None, **kw):
        self.kind, self.term = kind, term
        self.comp = None          # ZL / SL: Comp when the list is a (fused) comprehension
        self.seq = "any"          # ZL / SL / PYLIST: python container kind: list | tuple | range | any
        self.unordered = False    # ZL: only known up to a permutation (sorted(..)): usable for membership only
        self.atom = False         # ZL: term is an identifier bound in the generated text
        self.enum_of = None       # ZL: this is range(a.ndim) of the array with shape atom enum_of
        self.lenof = None         # N: len(<list term>)
        self.diff = False         # N: a difference of lengths (only usable as a repetition count)
        self.ndim_of = None       # Z: a.ndim of the array with shape atom ndim_of
        self.lit = None
        self.__dict__.update(kw)


class Comp:
    """[body for <element variables> in zip(srcs)]: srcs = atoms (opaque lists); enum = shape atom S when the
    comprehension also runs over d = 0 .. len(S)-1 together with S (variables S__i, S__)"""

    def __init__(self, srcs, enum, body):
        self.srcs, self.enum, self.body = list(srcs), enum, body


def san(text):
    return " ".join(text.split()).replace("(*", "( *").replace("*)", "* )")


def zlit(n):
    return str(n) if n >= 0 else "(%d)" % n


class Env:
    def __init__(self):
        self.locals = {}
        self.lines = []

    def child(self):
        e = Env()
        e.locals = dict(self.locals)
        e.lines = self.lines
        return e

    def fork(self):
        e = Env()
        e.locals = dict(self.locals)
        return e


# ---------------------------------------------------------------------------------------------
# one function
# ---------------------------------------------------------------------------------------------
class Fn:
    def __init__(self, fn, spec, tr):
        self.fn, self.spec, self.tr = fn, spec, tr
        self.used = set()
        self.order = {}           # atom -> binding position
        self.pre = []             # asserted preconditions (comments)
        self.ret_seq = set()
        self.ret_unordered = False

    def err(self, node, msg):
        ln = getattr(node, "lineno", 0)
        seg = ""
        try:
            seg = ast.unparse(node) if isinstance(node, ast.AST) else ""
        except Exception:
            pass
        raise TranslationError("%s, util.py line %d: %s%s" % (self.fn.name, ln, msg,
                                                              (": `%s`" % " ".join(seg.split())[:140]) if seg else ""))

    # ---- naming ----------------------------------------------------------------------------
    def claim(self, name, node=None):
        if name in self.used or name in RESERVED or not re.fullmatch(r"[A-Za-z_][A-Za-z0-9_]*", name):
            raise TranslationError("%s: the name `%s` clashes with the generated text" % (self.fn.name, name))
        self.used.add(name)
        self.order[name] = len(self.order)
        return name

    def fresh(self, hint):
        hint = re.sub(r"[^A-Za-z0-9_]", "_", hint)
        k = 1
        while "%s_%d" % (hint, k) in self.used or "%s_%d" % (hint, k) in RESERVED:
            k += 1
        return self.claim("%s_%d" % (hint, k))

    def let(self, env, hint, term, node):
        name = self.fresh(hint)
        env.lines.append("let %s := %s in   (* L%d: %s *)" % (name, term, node.lineno, san(ast.unparse(node))[:150]))
        return name

    def pyname(self, name, node):
        if name.endswith("__") or name.endswith("__i") or re.fullmatch(r".*_\d+", name) or name in BUILTINS \
                or name == self.tr.backend:
            self.err(node, "the name `%s` clashes with the names the translator generates or relies on" % name)

    # ---- integers --------------------------------------------------------------------------
    def zt(self, v, node):
        if isinstance(v, V) and v.kind == "Z":
            return v.term
        if isinstance(v, V) and v.kind == "LIT":
            return zlit(v.lit)
        self.err(node, "a value of kind %s where a Python int is expected" % (v.kind if isinstance(v, V) else "?"))

    # ---- lists of ints ---------------------------------------------------------------------
    def sorted_srcs(self, srcs):
        return sorted(set(srcs), key=lambda a: self.order[a])

    def mat(self, v, node):
        """the `list Z` term of a list-of-ints value (a comprehension becomes map / zip2 / zip4 of the model)"""
        if v.kind != "ZL":
            self.err(node, "a value of kind %s where a tuple / list of ints is expected" % v.kind)
        if v.term is not None:
            return v.term
        c = v.comp
        body = self.zt(c.body, node)
        if c.enum is not None:
            if c.srcs and self.sorted_srcs(c.srcs) != [c.enum]:
                self.err(node, "comprehension over range(a.ndim) zipped with other lists")
            return "(mapi (fun %s__i %s__ => %s) %s)" % (c.enum, c.enum, body, c.enum)
        srcs = self.sorted_srcs(c.srcs)
        comb = {1: "map", 2: "zip2", 4: "zip4"}.get(len(srcs))
        if comb is None:
            self.err(node, "a list of ints built from %d zipped lists (the model has map, zip2, zip4)" % len(srcs))
        return "(%s (fun %s => %s) %s)" % (comb, " ".join(s + "__" for s in srcs), body, " ".join(srcs))

    def iter_sources(self, it, env, node):
        """the iterable of a comprehension / for: -> ("static", [values]) or ("zip", [ZL values])"""
        if isinstance(it, ast.Call) and isinstance(it.func, ast.Name) and it.func.id == "zip" and "zip" not in env.locals:
            if it.keywords or len(it.args) < 2:
                self.err(it, "zip with keywords / fewer than two arguments")
            vals = [self.ev(a, env) for a in it.args]
            for a, v in zip(it.args, vals):
                if v.kind != "ZL":
                    self.err(a, "zip over something that is not a tuple / list of ints")
            return "zip", vals
        v = self.ev(it, env)
        if v.kind == "PYLIST":
            return "static", v.items
        if v.kind == "ZL":
            return "zip", [v]
        self.err(it, "iteration over a value of kind %s" % v.kind)

    def elem(self, v, node):
        """element value and sources when the list-of-ints v is iterated"""
        if v.comp is not None:
            c = v.comp
            return c.body, list(c.srcs), c.enum
        if v.enum_of is not None:
            return V("Z", v.enum_of + "__i"), [], v.enum_of
        if v.atom:
            return V("Z", v.term + "__"), [v.term], None
        self.err(node, "iteration over a list expression that is not a variable of the generated text (bind it to a name first)")

    def targets(self, t, n, node):
        if isinstance(t, ast.Name):
            names = [t.id]
        elif isinstance(t, ast.Tuple) and all(isinstance(e, ast.Name) for e in t.elts):
            names = [e.id for e in t.elts]
        else:
            self.err(node, "loop target not understood")
        if len(names) != n or len(set(names)) != len(names):
            self.err(node, "loop target does not match the %d iterated lists" % n)
        for nm in names:
            self.pyname(nm, node)
        return names

    def comprehension(self, n, env):
        if len(n.generators) != 1:
            self.err(n, "comprehension with several `for`")
        g = n.generators[0]
        if g.ifs or g.is_async:
            self.err(n, "comprehension with a condition")
        how, vals = self.iter_sources(g.iter, env, n)
        if how == "static":
            names = self.targets(g.target, 1, n)
            out = []
            for item in vals:
                e = env.child()
                e.locals[names[0]] = item
                out.append(self.ev(n.elt, e))
            return V("PYLIST", items=out, seq="list")
        names = self.targets(g.target, len(vals), n)
        e = env.child()
        srcs, enum, unordered = [], None, False
        for nm, v in zip(names, vals):
            el, s, en = self.elem(v, n)
            unordered = unordered or v.unordered
            srcs += s
            if en is not None:
                if enum not in (None, en):
                    self.err(n, "comprehension over the axes of two arrays")
                enum = en
            e.locals[nm] = el
        if unordered and len(vals) > 1:
            self.err(n, "zip with a list known only up to order (sorted(..))")
        body = self.ev(n.elt, e)
        if body.kind in ("Z", "LIT"):
            r = V("ZL", None, seq="list", unordered=unordered)
        elif body.kind in ("SLICE", "COND"):
            r = V("SL", None, seq="list")
        else:
            self.err(n, "comprehension element of kind %s" % body.kind)
        r.comp = Comp(srcs, enum, body)
        return r

    # ---- slices ----------------------------------------------------------------------------
    def is_lit(self, v, k):
        return v is not None and v.kind == "LIT" and v.lit == k

    def ax_gather(self, el, n, node):
        """out index k -> Some (in index): one axis of `a[.., <slice>, ..]`; n = term of the axis length or None"""
        if el.kind == "COND":
            return "(if %s then %s else %s)" % (el.cond, self.ax_gather(el.a, n, node), self.ax_gather(el.b, n, node))
        if el.kind != "SLICE":
            self.err(node, "an index that is not a slice")
        if el.step is None or self.is_lit(el.step, 1):
            if el.start is None and el.stop is None:
                return "(fun %s => Some %s)" % (KV, KV)
            self.err(node, "a unit-step slice with a start / stop is only understood in `zeros[osl] = a[isl]`")
        if self.is_lit(el.step, -1):
            if el.start is None and el.stop is None:
                if n is None:
                    self.err(node, "a reversing slice in a slice tuple that is not built per axis of the array")
                return "(fun %s => Some (%s - 1 - %s))" % (KV, n, KV)
            self.err(node, "a reversing slice with a start / stop")
        if el.step.kind == "LIT" and el.step.lit < 2:
            self.err(node, "a slice with step %d" % el.step.lit)
        if el.start is None or el.stop is not None:
            self.err(node, "a strided slice other than slice(start, None, step)")
        return "(fun %s => Some (%s + %s * %s))" % (KV, self.zt(el.start, node), self.zt(el.step, node), KV)

    def ax_scatter(self, el, node):
        """out index k -> in index of `zeros[.., slice(s, None, f), ..] = a`: k = s + f j  |->  j"""
        if el.kind != "SLICE" or el.start is None or el.stop is not None or el.step is None \
                or (el.step.kind == "LIT" and el.step.lit < 1):
            self.err(node, "assignment through a slice other than slice(start, None, step)")
        s, f = self.zt(el.start, node), self.zt(el.step, node)
        return "(fun %s => if (%s <=? %s) && ((%s - %s) mod %s =? 0) then Some ((%s - %s) / %s) else None)" \
            % (KV, s, KV, KV, s, f, KV, s, f)

    def ax_len(self, el, n, node):
        """length of range(*slice.indices(n)) for the accepted slices (start in [0, n], step > 0)"""
        if el.kind != "SLICE":
            self.err(node, "shape of an indexing whose slices depend on a test")
        if (el.step is None or self.is_lit(el.step, 1) or self.is_lit(el.step, -1)) and el.start is None and el.stop is None:
            return n
        if el.start is not None and el.stop is None and el.step is not None and not (el.step.kind == "LIT" and el.step.lit < 1):
            s, f = self.zt(el.start, node), self.zt(el.step, node)
            return "((%s - %s + %s - 1) / %s)" % (n, s, f, f)
        self.err(node, "shape of an indexing with this slice")

    def view_axes(self, arr, sl, node, scatter=False):
        """per-axis maps (list axmap term) of arr[sl] / zeros-like-arr[sl] = .."""
        if sl.kind != "SL" or sl.comp is None:
            self.err(node, "index that is not a tuple of slices built by a comprehension / loop")
        if sl.seq != "tuple":
            self.err(node, "index by a list of slices (numpy wants a tuple)")
        S = self.shape_atom(arr, node)
        c = sl.comp
        if c.enum is not None:
            if c.enum != S or [s for s in set(c.srcs) if s != S]:
                self.err(node, "slices built per axis of another array / zipped with other lists")
            if scatter:
                self.err(node, "assignment through slices built per axis")
            return "(mapi (fun %s__i %s__ => %s) %s)" % (S, S, self.ax_gather(c.body, S + "__", node), S)
        srcs = self.sorted_srcs(c.srcs)
        if S in srcs:
            self.err(node, "slices zipped from the array's own shape are only understood in `zeros[osl] = a[isl]`")
        if len(srcs) != 2:
            self.err(node, "slice tuple zipped from %d lists (the model has the two-list padded zip)" % len(srcs))
        f = self.ax_scatter(c.body, node) if scatter else self.ax_gather(c.body, None, node)
        return "(zip2_pad (fun %s => %s) %s (length %s))" % (" ".join(s + "__" for s in srcs), f, " ".join(srcs), S)

    def view_shape(self, arr, sl, node):
        S = self.shape_atom(arr, node)
        c = sl.comp
        if c.enum is not None:
            ln = self.ax_len(c.body if c.body.kind == "SLICE" else self.cond_same_len(c.body, node), S + "__", node)
            if ln == S + "__":
                return arr.shape
            self.err(node, "shape of a per-axis indexing that changes lengths")
        srcs = self.sorted_srcs(c.srcs)
        if len(srcs) != 2 or S in srcs:
            self.err(node, "shape of this indexing")
        ln = self.ax_len(c.body, "n__", node)
        return V("ZL", "(zip2_pad_shape (fun n__ %s => %s) %s %s)" % (" ".join(s + "__" for s in srcs), ln, S, " ".join(srcs)),
                 seq="tuple")

    def cond_same_len(self, el, node):
        """a COND of whole-axis slices (full / reversed): any leaf stands for the length"""
        while el.kind == "COND":
            for x in (el.a, el.b):
                y = x
                while y.kind == "COND":
                    y = y.a
                if not (y.kind == "SLICE" and y.start is None and y.stop is None
                        and (y.step is None or self.is_lit(y.step, 1) or self.is_lit(y.step, -1))):
                    self.err(node, "shape of a per-axis indexing that changes lengths")
            el = el.a
        return el

    def shape_atom(self, arr, node):
        sh = arr.shape
        if not (sh.kind == "ZL" and sh.atom):
            self.err(node, "indexing an array whose shape is not a variable of the generated text")
        return sh.term

    def copy_axes(self, out, osl, src, isl, node):
        """zeros[osl] = src[isl], both tuples of windows slice(a, a + L) of one common length L per axis"""
        for s in (osl, isl):
            if s.kind != "SL" or s.comp is None or s.comp.enum is not None:
                self.err(node, "window copy whose slices are not built by zip comprehensions")
            if s.seq != "tuple":
                self.err(node, "index by a list of slices (numpy wants a tuple)")
        So, Si = self.shape_atom(out, node), self.shape_atom(src, node)
        o, i = osl.comp.body, isl.comp.body
        for s in (o, i):
            if s.kind != "SLICE" or s.length is None or not (s.step is None or self.is_lit(s.step, 1)):
                self.err(node, "window copy with a slice that is not slice(a, a + L)")
        L1, L2 = self.zt(o.length, node), self.zt(i.length, node)
        if L1 != L2:
            self.err(node, "window copy between windows whose lengths are not the same expression (numpy would broadcast or raise)")
        a, a2 = self.zt(o.start, node), self.zt(i.start, node)
        f = "(fun %s => if (%s <=? %s) && (%s <? %s + %s) then Some (%s - %s + %s) else None)" % (KV, a, KV, KV, a, L1, KV, a, a2)
        srcs = self.sorted_srcs(osl.comp.srcs + isl.comp.srcs)
        if So not in srcs or Si not in srcs:
            self.err(node, "window copy whose slices are not zipped from the shapes of both arrays (so that the tuple covers every axis)")
        comb = {2: "zip2", 4: "zip4"}.get(len(srcs))
        if comb is None:
            self.err(node, "window copy zipped from %d lists (the model has zip2, zip4)" % len(srcs))
        return "(%s (fun %s => %s) %s)" % (comb, " ".join(s + "__" for s in srcs), f, " ".join(srcs))

    # ---- arrays ----------------------------------------------------------------------------
    def arr_data(self, v, node):
        """data term of an array value (a pending view a[sl] becomes a gather)"""
        if v.kind == "VIEW":
            return "(gatherN %s %s)" % (self.view_axes(v.arr, v.sl, node), self.arr_data(v.arr, node))
        if v.kind != "ARR":
            self.err(node, "a value of kind %s where an array is expected" % v.kind)
        if v.zeros:
            # numpy arrays are references: a view / alias taken now would see the later `zeros[..] = ..`
            self.err(node, "an xp.zeros(..) array is read (reshaped, rolled, indexed, returned) before it is written")
        return v.term

    def arr_shape(self, v, node):
        if v.kind == "VIEW":
            return self.view_shape(v.arr, v.sl, node)
        return v.shape

    # ---- expressions -----------------------------------------------------------------------
    def ev(self, n, env):
        if isinstance(n, ast.Constant):
            if n.value is None:
                return V("NONE")
            if isinstance(n.value, bool) or not isinstance(n.value, int):
                self.err(n, "constant other than None / an integer literal")
            return V("LIT", lit=n.value)
        if isinstance(n, ast.Name):
            if n.id in env.locals:
                return env.locals[n.id]
            if n.id == self.tr.backend:
                return V("BACKEND")
            self.err(n, "unknown name (not a parameter, not assigned on this path)")
        if isinstance(n, ast.UnaryOp):
            v = self.ev(n.operand, env)
            if isinstance(n.op, ast.USub):
                if v.kind == "LIT":
                    return V("LIT", lit=-v.lit)
                if v.kind == "Z":
                    return V("Z", "(- %s)" % v.term)
            if isinstance(n.op, ast.Not) and v.kind == "B":
                return V("B", "(negb %s)" % v.term)
            self.err(n, "unary operator not understood here")
        if isinstance(n, ast.BinOp):
            return self.binop(n, env)
        if isinstance(n, ast.BoolOp):
            vals = [self.ev(x, env) for x in n.values]
            if not all(v.kind == "B" for v in vals):
                self.err(n, "and / or of something that is not a test")
            op = " && " if isinstance(n.op, ast.And) else " || "
            return V("B", "(" + op.join(v.term for v in vals) + ")")
        if isinstance(n, ast.Compare):
            return self.compare(n, env)
        if isinstance(n, ast.List):
            if len(n.elts) == 0:
                return V("PYLIST", items=[], seq="list")
            items = [self.ev(e, env) for e in n.elts]
            if all(v.kind == "LIT" for v in items):
                return V("PYLIST", items=items, seq="list")
            self.err(n, "list display other than [] / [<integer literals>]")
        if isinstance(n, ast.ListComp):
            return self.comprehension(n, env)
        if isinstance(n, ast.GeneratorExp):
            # a generator evaluates its element expression when it is consumed: only accepted where that is at once
            self.err(n, "generator expression other than as the argument of tuple / list / sorted / max / min")
        if isinstance(n, ast.Attribute):
            v = self.ev(n.value, env)
            if v.kind in ("ARR", "VIEW"):
                if n.attr == "shape":
                    sh = self.arr_shape(v, n)
                    r = V("ZL", sh.term, seq="tuple", atom=sh.atom)
                    return r
                if n.attr == "ndim":
                    S = self.mat(self.arr_shape(v, n), n)
                    return V("Z", "(Z.of_nat (length %s))" % S, ndim_of=S if self.arr_shape(v, n).atom else None)
                if n.attr == "dtype":
                    return V("DTYPE", arr=v)
            self.err(n, "attribute not understood")
        if isinstance(n, ast.IfExp):
            c, a, b = self.ev(n.test, env), self.ev(n.body, env), self.ev(n.orelse, env)
            if c.kind != "B" or a.kind not in ("SLICE", "COND") or b.kind not in ("SLICE", "COND"):
                self.err(n, "conditional expression other than <slice> if <test> else <slice>")
            return V("COND", cond=c.term, a=a, b=b)
        if isinstance(n, ast.Subscript):
            a = self.ev(n.value, env)
            if a.kind != "ARR" or a.zeros:
                self.err(n, "subscript of something that is not an (input) array")
            return V("VIEW", arr=a, sl=self.ev(n.slice, env))
        if isinstance(n, ast.Call):
            return self.call(n, env)
        self.err(n, "expression form not understood")

    def binop(self, n, env):
        a, b = self.ev(n.left, env), self.ev(n.right, env)
        op = type(n.op)
        ints = ("Z", "LIT")
        if a.kind in ints and b.kind in ints:
            if a.kind == "LIT" and b.kind == "LIT":
                self.err(n, "arithmetic on integer literals only")
            fmt = {ast.Add: "(%s + %s)", ast.Sub: "(%s - %s)", ast.Mult: "(%s * %s)", ast.FloorDiv: "(%s / %s)",
                   ast.Mod: "(%s mod %s)"}.get(op)
            if fmt is None:
                self.err(n, "integer operator not understood (the model has + - * // %)")
            return V("Z", fmt % (self.zt(a, n), self.zt(b, n)))
        if a.kind == "N" and b.kind == "N" and op is ast.Sub and not a.diff and not b.diff:
            # only ever used as a repetition count, where a negative count and 0 give the same (empty) list
            return V("N", "(%s - %s)%%nat" % (a.term, b.term), diff=True)
        if op is ast.Mult and a.kind == "PYLIST" and len(a.items) == 1 and a.items[0].kind == "LIT" and a.seq == "list" \
                and b.kind == "N":
            c = zlit(a.items[0].lit)
            if b.lenof is not None:                              # [c] * len(l): one c per element of l
                return V("ZL", "(map (fun _ => %s) %s)" % (c, b.lenof), seq="list")
            return V("ZL", "(repeat %s %s)" % (c, b.term), seq="list")
        if op is ast.Add and a.kind == "ZL" and b.kind == "ZL":
            if a.seq != b.seq or a.seq not in ("list", "tuple"):
                self.err(n, "concatenation of a %s and a %s (Python would raise, or the kinds are not known)" % (a.seq, b.seq))
            if a.unordered or b.unordered:
                self.err(n, "concatenation with a list known only up to order")
            return V("ZL", "(%s ++ %s)" % (self.mat(a, n), self.mat(b, n)), seq=a.seq)
        self.err(n, "operator between values of kinds %s and %s" % (a.kind, b.kind))

    def compare(self, n, env):
        if len(n.ops) != 1:
            self.err(n, "chained comparison")
        op = type(n.ops[0])
        a, b = self.ev(n.left, env), self.ev(n.comparators[0], env)
        if op in (ast.Is, ast.IsNot):
            if a.kind == "OPT" and b.kind == "NONE":
                t = "(is_none %s)" % a.term
                return V("B", t if op is ast.Is else "(negb %s)" % t, none_test=(a.term if op is ast.Is else None))
            self.err(n, "`is` other than <optional tuple parameter> is None")
        if op in (ast.In, ast.NotIn):
            if a.kind in ("Z", "LIT") and b.kind == "ZL":
                t = "memZ %s %s" % (self.zt(a, n), self.mat(b, n))
                return V("B", "(%s)" % t if op is ast.In else "(negb (%s))" % t)
            self.err(n, "`in` other than <int> in <tuple of ints>")
        if a.kind == "ZL" and b.kind == "ZL" and op is ast.Eq:
            if a.seq != b.seq or a.seq not in ("list", "tuple"):
                self.err(n, "== between a %s and a %s (a list never equals a tuple)" % (a.seq, b.seq))
            if a.unordered or b.unordered:
                self.err(n, "== with a list known only up to order")
            return V("B", "(zlist_eqb %s %s)" % (self.mat(a, n), self.mat(b, n)))
        if a.kind == "N" and b.kind == "N" and op is ast.Eq and not a.diff and not b.diff:
            return V("B", "(Nat.eqb %s %s)" % (a.term, b.term))
        if a.kind in ("Z", "LIT") and b.kind in ("Z", "LIT") and not (a.kind == "LIT" and b.kind == "LIT"):
            fmt = {ast.Eq: "(%s =? %s)", ast.Lt: "(%s <? %s)", ast.LtE: "(%s <=? %s)"}.get(op)
            x, y = self.zt(a, n), self.zt(b, n)
            if fmt:
                return V("B", fmt % (x, y))
            fmt = {ast.Gt: "(%s <? %s)", ast.GtE: "(%s <=? %s)"}.get(op)
            if fmt:
                return V("B", fmt % (y, x))
        self.err(n, "comparison not understood")

    def arg(self, a, env):
        """argument of tuple / list / sorted / max / min: a generator expression is consumed on the spot"""
        return self.comprehension(a, env) if isinstance(a, ast.GeneratorExp) else self.ev(a, env)

    def call(self, n, env):
        f = n.func
        kw = {}
        for k in n.keywords:
            if k.arg is None or k.arg in kw:
                self.err(n, "keyword arguments not understood")
            kw[k.arg] = k.value
        if any(isinstance(a, ast.Starred) for a in n.args):
            self.err(n, "starred argument")
        nargs = len(n.args)
        builtin = f.id if isinstance(f, ast.Name) and f.id in BUILTINS and f.id not in env.locals else None
        if builtin in ("tuple", "list"):
            if kw or nargs != 1:
                self.err(n, "%s takes one argument here" % builtin)
            v = self.arg(n.args[0], env)
            if v.kind not in ("ZL", "SL", "PYLIST"):
                self.err(n, "%s() of a value of kind %s" % (builtin, v.kind))
            r = V(v.kind, v.term)
            r.__dict__.update(v.__dict__)
            r.seq = builtin
            if v.kind == "PYLIST":
                r.items = list(v.items)
            return r
        if builtin == "sorted":
            if kw or nargs != 1:
                self.err(n, "sorted takes one argument here")
            v = self.arg(n.args[0], env)
            if v.kind != "ZL":
                self.err(n, "sorted() of something that is not a tuple / list of ints")
            r = V("ZL", v.term)
            r.__dict__.update(v.__dict__)
            r.seq, r.unordered = "list", True                  # a permutation of v: only membership may look at it
            return r
        if builtin == "range":
            if kw or nargs != 1:
                self.err(n, "range with other than one argument")
            v = self.ev(n.args[0], env)
            if v.kind != "Z":
                self.err(n, "range of something that is not an int variable")
            return V("ZL", "(zrange 0 %s 1)" % v.term, seq="range", enum_of=v.ndim_of)
        if builtin == "len":
            if kw or nargs != 1:
                self.err(n, "len takes one argument")
            v = self.ev(n.args[0], env)
            if v.kind == "ZL":
                t = self.mat(v, n)
                return V("N", "(length %s)" % t, lenof=t)
            self.err(n, "len of something that is not a tuple / list of ints")
        if builtin in ("max", "min"):
            if kw:
                self.err(n, "%s with keywords" % builtin)
            vals = [self.arg(a, env) for a in n.args]
            if nargs == 1 and vals[0].kind == "PYLIST":
                vals = vals[0].items
            if len(vals) < 2:
                self.err(n, "%s of fewer than two values" % builtin)
            if all(v.kind in ("Z", "LIT") for v in vals) and not all(v.kind == "LIT" for v in vals) and len(vals) == 2:
                return V("Z", "(Z.%s %s %s)" % (builtin, self.zt(vals[0], n), self.zt(vals[1], n)))
            if all(v.kind == "N" and not v.diff for v in vals):
                t = vals[-1].term
                for v in reversed(vals[:-1]):
                    t = "(Nat.%s %s %s)" % (builtin, v.term, t)
                return V("N", t)
            self.err(n, "%s of these values" % builtin)
        if builtin == "slice":
            if kw or not 1 <= nargs <= 3:
                self.err(n, "slice call not understood")
            parts = [self.ev(a, env) for a in n.args]
            for p in parts:
                if p.kind not in ("Z", "LIT", "NONE"):
                    self.err(n, "slice bound of kind %s" % p.kind)
            parts = [None if p.kind == "NONE" else p for p in parts]
            if nargs == 1:
                start, stop, step = None, parts[0], None
            else:
                start, stop, step = (parts + [None])[:3]
            length = None
            if start is not None and stop is not None:
                sa = n.args[1]
                if isinstance(sa, ast.BinOp) and isinstance(sa.op, ast.Add) and ast.dump(sa.left) == ast.dump(n.args[0]):
                    length = self.ev(sa.right, env)              # slice(a, a + L)
            return V("SLICE", start=start, stop=stop, step=step, length=length)
        if builtin is not None:
            self.err(n, "call of %s not understood" % builtin)
        # helper functions of util.py
        if isinstance(f, ast.Name) and f.id not in env.locals and f.id in self.tr.helpers:
            return self.tr.helpers[f.id](self, n, env, kw)
        if isinstance(f, ast.Attribute):
            o = self.ev(f.value, env)
            if o.kind == "BACKEND" and f.attr == "get_array_module":
                if kw or nargs != 1 or self.ev(n.args[0], env).kind != "ARR":
                    self.err(n, "backend.get_array_module of something that is not an array")
                return V("XP")
            if o.kind == "XP" and f.attr == "zeros":
                if nargs != 1 or set(kw) != {"dtype"}:
                    self.err(n, "xp.zeros other than xp.zeros(shape, dtype=<array>.dtype): the model's zero array has the element type of the input")
                d = self.ev(kw["dtype"], env)
                if d.kind != "DTYPE":
                    self.err(n, "xp.zeros with a dtype that is not <array>.dtype")
                sh = self.ev(n.args[0], env)
                if sh.kind != "ZL" or sh.unordered:
                    self.err(n, "xp.zeros of a shape that is not a tuple / list of ints")
                return V("ARR", None, shape=sh, zeros=True, dtype_of=d.arr)
            if o.kind == "XP" and f.attr == "roll":
                if nargs != 2 or set(kw) != {"axis"}:
                    self.err(n, "xp.roll other than xp.roll(a, shift, axis=axis)")
                a, s, ax = self.ev(n.args[0], env), self.ev(n.args[1], env), self.ev(kw["axis"], env)
                if a.kind != "ARR" or a.zeros:
                    self.err(n, "xp.roll of something that is not an array")
                return V("ARR", "(roll %s %s %s %s)" % (self.mat(a.shape, n), self.zt(s, n), self.zt(ax, n), a.term),
                         shape=a.shape, zeros=False, origin=a.origin)
            if o.kind in ("ARR", "VIEW") and f.attr == "reshape":
                if kw or nargs != 1:
                    self.err(n, "reshape other than a.reshape(shape)")
                sh = self.ev(n.args[0], env)
                if sh.kind != "ZL" or sh.unordered:
                    self.err(n, "reshape to something that is not a tuple / list of ints")
                return V("ARR", "(reshape %s %s %s)" % (self.mat(self.arr_shape(o, n), n), self.mat(sh, n), self.arr_data(o, n)),
                         shape=sh, zeros=False, origin=(o.arr if o.kind == "VIEW" else o).origin)
        self.err(n, "call not understood")

    # ---- statements ------------------------------------------------------------------------
    def bind(self, env, name, v, node):
        self.pyname(name, node)
        if v.kind in ("NONE", "B", "BACKEND", "DTYPE", "SLICE", "COND"):
            self.err(node, "a value of kind %s is assigned to a variable" % v.kind)
        if v.kind == "ZL" and v.comp is None and not v.atom:
            r = V("ZL", self.let(env, name, v.term, node), atom=True)
            r.seq, r.unordered = v.seq, v.unordered
            env.locals[name] = r
            return
        if v.kind == "N" and not v.diff and v.lenof is None:
            env.locals[name] = V("N", self.let(env, name, v.term, node))
            return
        env.locals[name] = v

    def simple(self, s, env):
        if isinstance(s, ast.Pass):
            return
        if isinstance(s, ast.Expr) and isinstance(s.value, ast.Constant) and isinstance(s.value.value, str):
            return
        if isinstance(s, ast.Assert):
            if s.msg is not None:
                self.err(s, "assert with a message")
            c = self.ev(s.test, env)
            if c.kind != "B":
                self.err(s, "assert of something that is not a test of the model")
            env.lines.append("(* L%d: %s -- a precondition: inputs on which it fails raise and are not in the model *)"
                             % (s.lineno, san(ast.unparse(s))))
            return
        if isinstance(s, ast.Assign):
            if len(s.targets) != 1:
                self.err(s, "multiple assignment targets")
            t = s.targets[0]
            if isinstance(t, ast.Name):
                v = self.ev(s.value, env)
                if v.kind == "ARR" and v.zeros and not isinstance(s.value, ast.Call):
                    self.err(s, "a second name for an xp.zeros(..) array (writes through one name would be seen through the other)")
                self.bind(env, t.id, v, s)
                return
            if isinstance(t, ast.Tuple) and all(isinstance(e, ast.Name) for e in t.elts):
                v = self.ev(s.value, env)
                if v.kind != "TUPCALL" or len(v.items) != len(t.elts):
                    self.err(s, "tuple assignment from something other than a helper returning that many lists")
                names = []
                for e, item in zip(t.elts, v.items):
                    self.pyname(e.id, s)
                    nm = self.fresh(e.id)
                    names.append(nm)
                    r = V("ZL", nm, atom=True)
                    r.seq = item.seq
                    env.locals[e.id] = r
                env.lines.append("let '(%s) := %s in   (* L%d: %s *)" % (", ".join(names), v.term, s.lineno, san(ast.unparse(s))[:150]))
                return
            if isinstance(t, ast.Subscript) and isinstance(t.value, ast.Name):
                out = env.locals.get(t.value.id)
                if out is None or out.kind != "ARR" or not out.zeros:
                    self.err(s, "assignment into something that is not a fresh xp.zeros(..) array (written at most once)")
                sl = self.ev(t.slice, env)
                rhs = self.ev(s.value, env)
                if not (out.shape.kind == "ZL" and out.shape.atom):
                    self.err(s, "assignment into an array whose shape is not a variable of the generated text")
                if rhs.kind == "VIEW":
                    if rhs.arr is not out.dtype_of and not self.same_array(rhs.arr, out.dtype_of):
                        self.err(s, "the zero array was not created with the dtype of the array copied into it")
                    axes = self.copy_axes(out, sl, rhs.arr, rhs.sl, s)
                    data, origin = self.arr_data(rhs.arr, s), rhs.arr.origin
                elif rhs.kind == "ARR" and not rhs.zeros:
                    if not self.same_array(rhs, out.dtype_of):
                        self.err(s, "the zero array was not created with the dtype of the array copied into it")
                    axes = self.view_axes(out, sl, s, scatter=True)
                    data, origin = rhs.term, rhs.origin
                else:
                    self.err(s, "assignment of a value of kind %s into an array" % rhs.kind)
                env.locals[t.value.id] = V("ARR", "(gatherN %s %s)" % (axes, data), shape=out.shape, zeros=False, origin=origin)
                return
            self.err(s, "assignment target not understood")
        self.err(s, "statement form not understood (%s)" % type(s).__name__)

    @staticmethod
    def same_array(a, b):
        """same element type: b is a itself or a reshape / roll of the same input (dtype is not changed by them)"""
        return a is not None and b is not None and a.kind == "ARR" and b.kind == "ARR" and a.origin == b.origin

    @staticmethod
    def indent(lines):
        return ["  " + x for x in lines]

    def none_join(self, s, env):
        """`if x is None: x = e` with x an optional tuple parameter -> match x with Some l => l | None => e end"""
        if s.orelse or len(s.body) != 1 or not isinstance(s.body[0], ast.Assign):
            return False
        t = s.test
        if not (isinstance(t, ast.Compare) and len(t.ops) == 1 and isinstance(t.ops[0], ast.Is) and isinstance(t.left, ast.Name)
                and isinstance(t.comparators[0], ast.Constant) and t.comparators[0].value is None):
            return False
        a = s.body[0]
        if not (len(a.targets) == 1 and isinstance(a.targets[0], ast.Name) and a.targets[0].id == t.left.id):
            return False
        x = env.locals.get(t.left.id)
        if x is None or x.kind != "OPT":
            return False
        e = env.child()
        e.lines = []
        v = self.ev(a.value, e)
        if e.lines:
            self.err(s, "default value that needs intermediate bindings")
        if v.kind != "ZL" or v.unordered:
            self.err(s, "default of an optional tuple parameter that is not a tuple / list of ints")
        some = self.fresh(t.left.id + "_given")
        name = self.let(env, t.left.id, "match %s with Some %s => %s | None => %s end" % (x.term, some, some, self.mat(v, s)), s)
        r = V("ZL", name, atom=True)
        r.seq = "any"
        env.locals[t.left.id] = r
        return True

    def append_loop(self, s, env):
        """for d in range(a.ndim): <decision tree whose every leaf is ONE `lst.append(e)`>, lst == [] before the loop"""
        how, vals = self.iter_sources(s.iter, env, s)
        if how != "zip" or len(vals) != 1 or vals[0].enum_of is None:
            return False
        names = self.targets(s.target, 1, s)
        e = env.child()
        e.lines = []
        e.locals[names[0]] = V("Z", vals[0].enum_of + "__i")
        target = [None]

        def tree(stmts):
            if len(stmts) != 1:
                self.err(s, "loop body that is not one append per path")
            st = stmts[0]
            if isinstance(st, ast.If):
                c = self.ev(st.test, e)
                if c.kind != "B":
                    self.err(st, "condition is not a test of the model")
                if not st.orelse:
                    self.err(st, "a path of the loop body appends nothing")
                return V("COND", cond=c.term, a=tree(st.body), b=tree(st.orelse))
            if isinstance(st, ast.Expr) and isinstance(st.value, ast.Call) and isinstance(st.value.func, ast.Attribute) \
                    and st.value.func.attr == "append" and isinstance(st.value.func.value, ast.Name) \
                    and len(st.value.args) == 1 and not st.value.keywords:
                nm = st.value.func.value.id
                if target[0] not in (None, nm):
                    self.err(st, "the loop appends to two lists")
                target[0] = nm
                v = self.ev(st.value.args[0], e)
                if v.kind != "SLICE":
                    self.err(st, "append of something that is not a slice")
                return v
            self.err(st, "loop body statement not understood")
        body = tree(s.body)
        if s.orelse or e.lines:
            self.err(s, "for-else / bindings inside the loop")
        lst = env.locals.get(target[0])
        if lst is None or lst.kind != "PYLIST" or lst.items or lst.seq != "list":
            self.err(s, "append to something that is not an empty list built just before the loop")
        r = V("SL", None, seq="list")
        r.comp = Comp([], vals[0].enum_of, body)
        env.locals[target[0]] = r
        env.locals[names[0]] = V("DEAD")
        return True

    def fold_loop(self, s, env):
        """for u, v in zip(A, B): a = <array expression of a, u, v with the shape of a> -> loop_zip2"""
        how, vals = self.iter_sources(s.iter, env, s)
        if how != "zip" or len(vals) != 2:
            self.err(s, "for loop other than over range(a.ndim) or a zip of two lists")
        names = self.targets(s.target, 2, s)
        if s.orelse or len(s.body) != 1 or not isinstance(s.body[0], ast.Assign) or len(s.body[0].targets) != 1 \
                or not isinstance(s.body[0].targets[0], ast.Name):
            self.err(s, "loop body other than one assignment to an array variable")
        st = s.body[0]
        var = st.targets[0].id
        a = env.locals.get(var)
        if a is None or a.kind != "ARR" or a.zeros or not a.shape.atom:
            self.err(s, "the loop variable being updated is not an array with a named shape")
        atoms = []
        for v in vals:
            if v.comp is not None or v.enum_of is not None or not v.atom or v.unordered:
                self.err(s, "loop over a list that is not a variable of the generated text")
            atoms.append(v.term)
        S = a.shape.term
        e = env.child()
        e.lines = []
        for nm, at in zip(names, atoms):
            e.locals[nm] = V("Z", at + "__")
        inv, stv = S + "__v", var + "__st"
        shp = V("ZL", inv, atom=True)
        shp.seq = a.shape.seq
        e.locals[var] = V("ARR", stv, shape=shp, zeros=False, origin=a.origin)
        r = self.ev(st.value, e)
        if e.lines:
            self.err(s, "bindings inside the loop")
        if r.kind != "ARR" or r.zeros or r.shape.term != inv:
            self.err(s, "the loop body does not produce an array of the same shape")
        order = self.sorted_srcs(atoms)
        if len(order) != 2:
            self.err(s, "zip of a list with itself")
        term = "(loop_zip2 (fun %s %s %s %s => %s) %s %s %s %s)" % (inv, order[0] + "__", order[1] + "__", stv, r.term,
                                                                    S, order[0], order[1], a.term)
        env.locals[var] = V("ARR", term, shape=a.shape, zeros=False, origin=a.origin)
        for nm in names:
            env.locals[nm] = V("DEAD")

    def run(self, stmts, env):
        stmts = list(stmts)
        while stmts:
            s = stmts.pop(0)
            if isinstance(s, ast.If):
                if self.none_join(s, env):
                    continue
                if not (s.body and isinstance(s.body[-1], ast.Return)):
                    self.err(s, "`if` other than `if x is None: x = <default>` and `if <test>: ... return ..`")
                c = self.ev(s.test, env)
                if c.kind != "B":
                    self.err(s.test, "condition is not a test of the model")
                cm = "   (* L%d: if %s *)" % (s.lineno, san(ast.unparse(s.test)))
                e1, e2 = env.fork(), env.fork()
                x = getattr(c, "none_test", None)
                if x is not None:                                  # lone `x is None`
                    pyn = [k for k, v in env.locals.items() if v.kind == "OPT" and v.term == x]
                    some = self.fresh(x + "_given")
                    for k in pyn:
                        e1.locals[k] = V("NONEVAL")
                        r = V("ZL", some, atom=True)
                        e2.locals[k] = r
                    return env.lines + ["match %s with%s" % (x, cm), "| None =>"] + self.indent(self.run(list(s.body), e1)) \
                        + ["| Some %s =>" % some] + self.indent(self.run(list(s.orelse) + stmts, e2)) + ["end"]
                return env.lines + ["if %s then (%s" % (c.term, cm)] + self.indent(self.run(list(s.body), e1)) \
                    + [") else ("] + self.indent(self.run(list(s.orelse) + stmts, e2)) + [")"]
            if isinstance(s, ast.For):
                if not self.append_loop(s, env):
                    self.fold_loop(s, env)
                continue
            if isinstance(s, ast.Return):
                return env.lines + self.leaf(s, env)
            self.simple(s, env)
        raise TranslationError("%s: a path ends without a return" % self.fn.name)

    def leaf(self, s, env):
        if s.value is None:
            self.err(s, "return without a value")
        v = self.ev(s.value, env)
        cm = "   (* L%d: %s *)" % (s.lineno, san(ast.unparse(s)))
        ret = self.spec["ret"]
        if ret == "zlist":
            if v.kind != "ZL":
                self.err(s, "the returned value is not a tuple / list of ints")
            self.ret_seq.add(v.seq)
            self.ret_unordered = self.ret_unordered or v.unordered
            return [self.mat(v, s) + cm]
        if ret == "zlists":
            if v.kind != "PYLIST" or v.seq != "tuple" or len(v.items) != self.spec["nret"] or not all(x.kind == "ZL" and not x.unordered for x in v.items):
                self.err(s, "the returned value is not a tuple of %d lists of ints" % self.spec["nret"])
            self.ret_items = [x.seq for x in v.items]
            return ["(%s)%s" % (", ".join(self.mat(x, s) for x in v.items), cm)]
        if v.kind not in ("ARR", "VIEW") or (v.kind == "ARR" and v.zeros):
            self.err(s, "the returned value is not an array computed from the input")
        if self.mode == "shape":
            return [self.mat(self.arr_shape(v, s), s) + cm]
        return [self.arr_data(v, s) + cm]

    # ---- signature -------------------------------------------------------------------------
    def translate(self, mode="data"):
        self.mode = mode
        self.used, self.order = set(), {}
        a = self.fn.args
        if a.kwarg or a.kwonlyargs or a.posonlyargs or self.fn.decorator_list or a.kw_defaults:
            raise TranslationError("%s: signature / decorators not understood" % self.fn.name)
        for node in ast.walk(self.fn):
            if isinstance(node, (ast.Global, ast.Nonlocal, ast.FunctionDef, ast.AsyncFunctionDef, ast.Lambda, ast.ClassDef,
                                 ast.Yield, ast.YieldFrom, ast.Await, ast.NamedExpr)) and node is not self.fn:
                raise TranslationError("%s, util.py line %d: nested definition / global / yield / walrus" % (self.fn.name, node.lineno))
        env = Env()
        binders, data = [], []
        kinds = self.spec["params"]
        if self.spec.get("vararg"):
            if a.args or a.defaults or a.vararg is None:
                raise TranslationError("%s: expected the signature (*%s)" % (self.fn.name, "shapes"))
            self.pyname(a.vararg.arg, self.fn)
            items = []
            for k in range(self.spec["vararg"]):
                nm = self.claim("%s_%d" % (a.vararg.arg, k))
                binders.append("(%s : list Z)" % nm)
                r = V("ZL", nm, atom=True)
                items.append(r)
            env.locals[a.vararg.arg] = V("PYLIST", items=items, seq="tuple")
        else:
            if a.vararg or len(a.args) != len(kinds):
                raise TranslationError("%s takes %d parameters, the model %d" % (self.fn.name, len(a.args), len(kinds)))
            ndef = len(a.defaults)
            defaults = [None] * (len(a.args) - ndef) + list(a.defaults)
            for arg, kind, d in zip(a.args, kinds, defaults):
                nm = arg.arg
                self.pyname(nm, self.fn)
                want_default = kind.endswith("=None")
                kind = kind.split("=")[0]
                if want_default != (d is not None) or (d is not None and not (isinstance(d, ast.Constant) and d.value is None)):
                    raise TranslationError("%s: the default of parameter `%s` is not the one the model was written for (%s)"
                                           % (self.fn.name, nm, "None" if want_default else "no default"))
                if kind == "array":
                    sh = self.claim(nm + "_shape")
                    binders.append("(%s : list Z)" % sh)
                    data.append(nm)
                    shp = V("ZL", sh, atom=True)
                    shp.seq = "tuple"
                    env.locals[nm] = V("ARR", nm, shape=shp, zeros=False, origin=nm)
                elif kind == "zlist":
                    binders.append("(%s : list Z)" % self.claim(nm))
                    env.locals[nm] = V("ZL", nm, atom=True)
                elif kind == "optlist":
                    binders.append("(%s : option (list Z))" % self.claim(nm))
                    env.locals[nm] = V("OPT", nm)
                elif kind == "int":
                    binders.append("(%s : Z)" % self.claim(nm))
                    env.locals[nm] = V("Z", nm)
                else:
                    raise TranslationError("internal: parameter kind %s" % kind)
        for nm in data:
            binders.append("(%s : farr R)" % self.claim(nm))
        lines = self.run(self.fn.body, env)
        return binders, lines


# V needs a few optional attributes with defaults
for _a, _d in (("zeros", False), ("shape", None), ("origin", None), ("dtype_of", None), ("items", None), ("start", None),
               ("stop", None), ("step", None), ("length", None), ("cond", None), ("a", None), ("b", None), ("arr", None),
               ("sl", None), ("none_test", None)):
    setattr(V, _a, _d)


# ---------------------------------------------------------------------------------------------
# the functions in scope, and how a call of a helper is read
# ---------------------------------------------------------------------------------------------
# params: kind per positional parameter ("=None": the default the model was written for);  hand: the hand model's
# definition and how the generated function's arguments are passed to it
SPECS = [
    dict(py="_normalize_axes", gen="gen_normalize_axes", params=["optlist", "int"], ret="zlist", rtype="list Z",
         hand="normalize_axes", hand_args=lambda b: b),
    dict(py="_expand_shapes", gen="gen_expand_shapes", params=[], vararg=2, ret="zlists", nret=2, rtype="list Z * list Z",
         hand="expand_shapes", hand_args=lambda b: b),
    dict(py="resize", gen="gen_resize", params=["array", "zlist", "optlist=None", "optlist=None"], ret="array", rtype="farr R",
         hand="resize", hand_args=lambda b: b),
    dict(py="flip", gen="gen_flip", params=["array", "optlist=None"], ret="array", rtype="farr R",
         hand="flip", hand_args=lambda b: b),
    dict(py="circshift", gen="gen_circshift", params=["array", "zlist", "optlist=None"], ret="array", rtype="farr R",
         hand="circshift", hand_args=lambda b: b),
    dict(py="downsample", gen="gen_downsample", params=["array", "zlist", "optlist=None"], ret="array", rtype="farr R",
         hand="downsample", hand_args=lambda b: b,
         shape=dict(gen="gen_downsample_oshape", hand="downsample_oshape", hand_args=lambda b: b)),
    # the hand model of upsample does not look at the shape of its input
    dict(py="upsample", gen="gen_upsample", params=["array", "zlist", "zlist", "optlist=None"], ret="array", rtype="farr R",
         hand="upsample", hand_args=lambda b: b[1:]),
]
COVERED = "_normalize_axes, _expand_shapes, resize, flip, circshift, downsample, upsample"
LEMMAS = ["gen_normalize_axes_ok", "gen_expand_shapes_ok", "gen_resize_ok", "gen_flip_ok", "gen_circshift_ok",
          "gen_downsample_ok", "gen_downsample_oshape_ok", "gen_upsample_ok"]


class Translator:
    def __init__(self, tree):
        self.tree = tree
        self.backend = None
        self.helpers = {}
        self.summary = {}

    # a call `_normalize_axes(axes, a.ndim)`: the generated function applied to the arguments; the result is known only
    # up to order when the helper sorts
    def call_normalize_axes(self, fn, n, env, kw):
        if kw or len(n.args) != 2:
            fn.err(n, "_normalize_axes other than _normalize_axes(axes, ndim)")
        a, d = fn.ev(n.args[0], env), fn.ev(n.args[1], env)
        if a.kind != "OPT":
            fn.err(n, "_normalize_axes of something that is not the optional axes parameter")
        s = self.summary["_normalize_axes"]
        r = V("ZL", "(gen_normalize_axes %s %s)" % (a.term, fn.zt(d, n)))
        r.seq, r.unordered = s["seq"], s["unordered"]
        return r

    def call_expand_shapes(self, fn, n, env, kw):
        if kw or len(n.args) != 2:
            fn.err(n, "_expand_shapes with other than two shapes (the model is the two-shape call)")
        vals = [fn.ev(x, env) for x in n.args]
        for v in vals:
            if v.kind != "ZL" or v.unordered:
                fn.err(n, "_expand_shapes of something that is not a shape")
        items = []
        for sq in self.summary["_expand_shapes"]["items"]:
            it = V("ZL")
            it.seq = sq
            items.append(it)
        return V("TUPCALL", "gen_expand_shapes %s %s" % (fn.mat(vals[0], n), fn.mat(vals[1], n)), items=items)


def module_facts(tree):
    """-> local name of sigpy.backend; fails closed when a name the reading relies on is (re)bound in the module"""
    names = []
    for node in tree.body:
        if isinstance(node, ast.ImportFrom) and node.module == "sigpy" and node.level == 0:
            for a in node.names:
                if a.name == "backend":
                    names.append(a.asname or "backend")
    if len(names) != 1:
        raise TranslationError("util.py no longer has exactly one `from sigpy import backend`")
    backend = names[0]
    funcs = {sp["py"] for sp in SPECS}
    watched = BUILTINS | {backend} | funcs
    count = {f: 0 for f in funcs}
    for node in ast.walk(tree):
        if isinstance(node, (ast.FunctionDef, ast.AsyncFunctionDef, ast.ClassDef)) and node.name in watched:
            if isinstance(node, ast.FunctionDef) and node.name in funcs and any(node is s for s in tree.body):
                count[node.name] += 1
            else:
                raise TranslationError("util.py line %d: `%s` is (re)defined" % (node.lineno, node.name))
        if isinstance(node, (ast.Global, ast.Nonlocal)) and set(node.names) & watched:
            raise TranslationError("util.py line %d: global / nonlocal on a name the reading relies on" % node.lineno)
        if isinstance(node, (ast.Import, ast.ImportFrom)):
            for a in node.names:
                if a.name == "*":
                    raise TranslationError("util.py line %d: `import *`" % node.lineno)
                bound = a.asname or a.name.split(".")[0]
                if bound in watched and not (isinstance(node, ast.ImportFrom) and node.module == "sigpy" and a.name == "backend"):
                    raise TranslationError("util.py line %d: import rebinds `%s`" % (node.lineno, bound))

    def stores(node, top):
        for ch in ast.iter_child_nodes(node):
            inner = top
            if isinstance(ch, (ast.FunctionDef, ast.AsyncFunctionDef, ast.Lambda)):
                inner = False
            if isinstance(ch, ast.Name) and isinstance(ch.ctx, (ast.Store, ast.Del)) and ch.id in watched:
                raise TranslationError("util.py line %d: the name `%s` is rebound" % (ch.lineno, ch.id))
            if isinstance(ch, ast.arg) and ch.arg in watched:
                raise TranslationError("util.py line %d: parameter named `%s`" % (ch.lineno, ch.arg))
            stores(ch, inner)
    stores(tree, True)
    for f, k in count.items():
        if k != 1:
            raise TranslationError("util.py defines %s %d times at module level" % (f, k))
    return backend


TACTICS = """(* computation; else case analysis on the optional arguments; else also on the list-equality tests that occur
   (after unfolding the helpers named by the lemma, so that the tested lists are visible) *)
Ltac tie_opts := repeat match goal with o : option _ |- _ => destruct o end.
Ltac tie_tests := repeat match goal with |- context [zlist_eqb ?a ?b] => destruct (zlist_eqb a b) end.
Ltac tie unf := first [ reflexivity | tie_opts; first [ reflexivity | unf; tie_tests; reflexivity ] ].
"""

UNF = "cbv beta iota zeta delta [gen_expand_shapes expand_shapes is_none]"

COMBINATORS = """(* ---- fixed text: the shapes of iteration the translator reads loops / slice tuples as -------------------------
   zip2_pad f a b ndim : the per-axis maps of  x[tuple(<slice> for u, v in zip(a, b))]  on an ndim-dimensional x:
                         f u v on the leading min(len a, len b) axes, the whole axis (k |-> k) on the others;
   zip2_pad_shape g i a b : the shape of that indexing (g n u v = length of the slice on an axis of length n);
   loop_zip2 body inv a b s : for u, v in zip(a, b): s = body inv u v s   (inv: what the body reads and does not change);
   is_none : `x is None`. *)
Section Pad2.
  Variable f : Z -> Z -> axmap.
  Fixpoint zip2_pad (a b : list Z) (ndim : nat) : list axmap :=
    match ndim with
    | O => []
    | S nd =>
        match a, b with
        | u :: a', v :: b' => f u v :: zip2_pad a' b' nd
        | _, _ => (fun k => Some k) :: zip2_pad [] [] nd
        end
    end.
End Pad2.
Section Pad2Shape.
  Variable g : Z -> Z -> Z -> Z.
  Fixpoint zip2_pad_shape (i a b : list Z) : list Z :=
    match i with
    | [] => []
    | n :: i' =>
        match a, b with
        | u :: a', v :: b' => g n u v :: zip2_pad_shape i' a' b'
        | _, _ => n :: zip2_pad_shape i' [] []
        end
    end.
End Pad2Shape.
Section Loop2.
  Variables (P S : Type) (body : P -> Z -> Z -> S -> S).
  Fixpoint loop_zip2 (inv : P) (a b : list Z) (s : S) : S :=
    match a, b with
    | u :: a', v :: b' => loop_zip2 inv a' b' (body inv u v s)
    | _, _ => s
    end.
End Loop2.
Arguments loop_zip2 {P S}.
Definition is_none {A} (o : option A) : bool := match o with None => true | Some _ => false end.
"""

HEADER = """(* Gen_util.v -- GENERATED by tools/translate_util.py from sigpy/util.py (sha256 %s).  Do not edit.
   _normalize_axes, _expand_shapes (two shapes), resize, flip, circshift, downsample, upsample as written in the source,
   over the representation of model/Rearrange.v (array = shape + `list Z -> R`; rearrangement = gatherN of per-axis
   partial index maps; numpy.roll / reshape = the model's roll / reshape), and their agreement with the hand model
   (each lemma: unfolding, case analysis on the optional arguments and the shape-equality test, reflexivity).
   Conventions (notes/translate_util.md): an array parameter `a` is `a_shape` (in its position) and `a` (last);
   `x__` is the element of the zipped list x, `s__i` / `s__` the axis number / length over the shape s, `k__` an index;
   comprehensions over zip(..) are fused down to the lists they are computed from and those are ordered by binding place;
   `if x is None: x = e` is `match x with Some l => l | None => e end`. *)
From Coq Require Import ZArith List Bool.
From SV Require Import lib.Scalar lib.BigSum lib.LoopIR lib.NdArray lib.Gather model.Rearrange.
Import ListNotations.
Local Open Scope Z_scope.

"""


def translate_source(src):
    """-> text of gen/Gen_util.v"""
    tree = ast.parse(src)
    tr = Translator(tree)
    tr.backend = module_facts(tree)
    out = [HEADER % hashlib.sha256(src.encode()).hexdigest(), COMBINATORS, TACTICS, "Section Gen.", "  Variable R : Ops.", ""]
    lemmas = []
    for sp in SPECS:
        fn = [s for s in tree.body if isinstance(s, ast.FunctionDef) and s.name == sp["py"]][0]
        jobs = [("data", sp["gen"], sp["hand"], sp["hand_args"], sp["rtype"])]
        if sp.get("shape"):
            sh = sp["shape"]
            jobs.append(("shape", sh["gen"], sh["hand"], sh["hand_args"], "list Z"))
        for mode, gen, hand, hand_args, rtype in jobs:
            F = Fn(fn, sp, tr)
            binders, lines = F.translate(mode)
            if mode == "shape":
                binders = binders[:-1]                         # the shape does not depend on the data
            names = [re.match(r"\((\S+) :", b).group(1) for b in binders]
            out.append("  (* %s%s  (util.py line %d) *)" % (sp["py"], " -- shape of the result" if mode == "shape" else "", fn.lineno))
            out.append("  Definition %s %s : %s :=\n    %s." % (gen, " ".join(binders), rtype, "\n    ".join(lines)))
            out.append("  Lemma %s_ok : forall %s, %s %s = %s %s.\n  Proof. intros. unfold %s, %s. tie ltac:(%s). Qed.\n"
                       % (gen, " ".join(binders), gen, " ".join(names), hand, " ".join(hand_args(names)), gen, hand,
                          UNF if "_expand_shapes" in tr.helpers else "idtac"))
            lemmas.append(gen + "_ok")
            if mode == "data" and sp["py"] == "_normalize_axes":
                if len(F.ret_seq) != 1:
                    raise TranslationError("_normalize_axes returns different container kinds on its paths")
                tr.summary["_normalize_axes"] = dict(seq=list(F.ret_seq)[0], unordered=F.ret_unordered)
                tr.helpers["_normalize_axes"] = tr.call_normalize_axes
            if mode == "data" and sp["py"] == "_expand_shapes":
                tr.summary["_expand_shapes"] = dict(items=F.ret_items)
                tr.helpers["_expand_shapes"] = tr.call_expand_shapes
    out.append("End Gen.")
    assert lemmas == LEMMAS, lemmas
    return "\n".join(out) + "\n"


def translate_util(repo, path=None):
    return translate_source(open(path or os.path.join(repo, SRC_REL)).read())


def failing_lemma(gen_text, log):
    """name of the lemma / definition a coqc error message points into"""
    m = re.search(r'line (\d+), characters', log)
    if not m:
        return None
    lines = gen_text.split("\n")
    for i in range(min(int(m.group(1)), len(lines)) - 1, -1, -1):
        mm = re.match(r"\s*(?:Lemma|Definition)\s+([A-Za-z0-9_']+)", lines[i])
        if mm:
            return mm.group(1)
    return None


def tie(ctx):
    """The two obligations props/C09.py adds (DESIGN 2.10 steps 1-2): regenerate gen/Gen_util.v from the tree under test,
    then compile it (the `_ok` lemmas ARE the tie).  Returns None when both hold, else {"theorem": <translator or lemma>,
    "log": ...} for the no-failing-input report."""
    from tools import translate_all
    from vlib import core
    tr_err = translate_all.run(strict=False, only=["util"])
    ctx.source_hash(SRC_REL)
    ctx.obligation("translate:%s (%s)" % (SRC_REL, COVERED), not tr_err)
    name = "tie:generated == hand model (gen/Gen_util.v: %s)" % ", ".join(LEMMAS)
    if tr_err:
        ctx.notes.append("translator failed closed: %s" % tr_err)
        ctx.obligation(name, False)
        return {"theorem": "translate:" + SRC_REL, "log": str(tr_err)}
    ctx.checker_cmds.append("cd %s && make gen/Gen_util.vo" % core.COQ)
    ok, log = core.coq_make(["gen/Gen_util.vo"], timeout=600)
    ctx.obligation(name, ok)
    if ok:
        return None
    lem = None
    m = re.search(r'File "[^"]*?Gen_util\.v", line (\d+)', log)
    if m:
        try:
            lem = failing_lemma(open(os.path.join(core.COQ, "gen", "Gen_util.v")).read(), "line %s, characters" % m.group(1))
        except OSError:
            lem = None
    which = "%s (gen/Gen_util.v)" % (lem or "?")
    ctx.notes.append("generated rearrangement functions no longer equal the hand model: %s: %s" % (which, log[-1200:]))
    return {"theorem": "tie:" + which, "log": log[-2500:]}


if __name__ == "__main__":
    args = [a for a in sys.argv[1:] if not a.startswith("--")]
    sys.stdout.write(translate_util(args[0] if args else "/repo"))
