#!/usr/bin/env python3
"""Fail-closed translator: `poisson` and the numba kernel `_poisson` of sigpy/mri/samp.py (Python `ast`) -> Gallina.

From the SOURCE TEXT of samp.py it regenerates, on every run, coq/gen/Gen_poisson.v: the kernel (calibration block, the
dart-throwing loops, the conflict scan) and the front end (parameter check, radius grid, slope bisection, corner crop, final
tolerance test) as Gallina definitions over the SAME operations as the hand models coq/model/Poisson.v (record POps, the
stream of draws, pstate, sloop / search) and coq/model/PoissonFront.v (pabs, pmax, psqrt, peqb, rfield, radii_t, ind_t, mid_t),
each followed by a machine-checked lemma `gen_<f>_ok : generated = hand model`.  The three loops are written as the iterators
gen_while / gen_tries / gen_search_iter of their generated body; the prelude of the generated file (fixed text) proves once,
by induction on the fuel, that the hand model's recursions run / attempts / sloop are these iterators of their own bodies, so
every source-dependent lemma is: unfold, case analysis on the tests and on the stream, reflexivity.

A change of the source (`<` for `<=`, a swapped index, a dropped abs, another constant, a dropped term, another branch ...)
either is outside the accepted fragment (TranslationError naming the line: FAIL CLOSED) or produces a different term and a
lemma no longer compiles.  See notes/translate_poisson.md for the accepted fragment and the readings.

Entry points: translate_poisson(repo[, path]) -> text of gen/Gen_poisson.v; translate_source(src); tie(ctx) for props/C18.py;
tools/test_translate_poisson.py is the self-test (mutations of a copy of samp.py).
"""
import ast
import hashlib
import os
import re
import sys


class TranslationError(Exception):
    pass


SRC_REL = "sigpy/mri/samp.py"
SRC_NAME = "samp.py"
COVERED = "_poisson, poisson"
LEMMAS = ["gen_init_mask_ok", "gen_conflict_ok", "gen_accept_ok", "gen_attempt_body_ok", "gen_attempts_ok", "gen_step_ok",
          "gen_running_ok", "gen_run_ok", "gen_poisson_run_ok", "gen_r_ok", "gen_search_round_ok", "gen_poisson_ok"]

# ---------------------------------------------------------------------------------------------
# kinds of symbolic values
# ---------------------------------------------------------------------------------------------
Z = "int"            # Python int                                        : Z
F = "float"          # Python / numpy float scalar                       : T
LIT = "intlit"       # integer literal
FLIT = "floatlit"    # float literal (only 0.5, as an exponent)
HALF = "half"        # <int> / 2: a float that is exactly num / 2         : T (term) and the Z numerator (num)
B = "bool"           # bool                                               : bool
PI = "np.pi"         # only as 2 * np.pi
PAIR = "pair"        # length-2 tuple of ints (img_shape, calib)
A1 = "int1d"         # int32 1-D array                                    : Z -> Z   (term = the function)
M2 = "mask2d"        # 2-D array holding 0.0 / 1.0, modelled in Z          : body over y__ x__
A2 = "float2d"       # 2-D float array                                    : body over y__ x__
I2 = "int2d"         # 2-D int array (np.mgrid)                           : body over y__ x__
B2 = "bool2d"        # 2-D bool array                                     : body over y__ x__
SEED = "seed"        # the seed argument (None or int): only tested against None and passed on
OPAQUE = "opaque"    # np.random.get_state() / dtype
NONE = "None"
MOD = "module"
ARRAYS = (M2, A2, I2, B2)
ELT = {M2: Z, A2: F, I2: Z, B2: B}

YV, XV = "y__", "x__"

COQ_KEYWORDS = {"by", "at", "in", "as", "end", "fun", "let", "if", "then", "else", "with", "using", "return", "fix", "cofix",
                "match", "forall", "exists", "where", "for", "mod", "Set", "Prop", "Type", "IF", "do", "from"}
# names of the Coq library, of model/Poisson.v, model/PoissonFront.v and of the fixed text of the generated file
MODEL_NAMES = {"T", "Z", "nat", "bool", "list", "option", "Some", "None", "true", "false", "fst", "snd", "map", "app", "nil", "cons",
               "negb", "existsb", "length", "fold_left", "flat_map", "O", "S",
               "POps", "mkPOps", "PT", "pofZ", "padd", "psub", "pmul", "pdiv", "ppowhalf", "pcos", "psin", "ptwopi", "ptrunc", "pleb",
               "pltb", "draw", "DInt", "DFloat", "pstate", "mkPState", "mask", "pxs", "pys", "na", "status", "Finished", "OutOfFuel",
               "BadStream", "zrange", "prange", "zupd", "mset", "calib_lo", "calib_hi", "in_calib", "init_mask", "psq", "conflict",
               "in_grid", "accept", "attempts", "step", "running", "run", "init_state", "poisson_run", "crop", "msum", "accel_of",
               "sresult", "Returned", "Raised", "Unbound", "SearchFuel", "sloop", "search", "eval_mask", "close_t", "below_t",
               "poisson", "fresult", "BadAccel", "Searched", "amax2", "axis_dist", "xdist", "ydist", "xnorm", "ynorm", "rfield",
               "radius_of", "radii_t", "ind_t", "mid_t", "poisson_front", "pabs", "pmax", "psqrt", "peqb",
               "streams", "fuel_k", "fuel", "st", "s", "s1", "s2", "q", "res", "k", "tie", "tie_case", "tie_norm", "tie_rw",
               "GLeave", "GLeaveWith", "GNext"}
RESERVED = COQ_KEYWORDS | MODEL_NAMES
PROTECTED = {"int", "max", "min", "abs", "range", "ValueError"}     # builtins the reading relies on: never rebound


def san(text):
    """Python source inside a Coq comment."""
    return " ".join(text.split()).replace("(*", "( *").replace("*)", "* )")


def mangle(name):
    return name + "_" if (name in RESERVED or name.startswith("gen_")) else name


def check_name(name, where):
    if not re.fullmatch(r"[A-Za-z_][A-Za-z0-9_]*", name) or name.endswith("_") or re.fullmatch(r".*_\d+", name) \
            or name in PROTECTED:
        raise TranslationError("%s: the name `%s` clashes with the names of the generated text" % (where, name))


def zlit(n):
    return str(n) if n >= 0 else "(%d)" % n


def at(body, y, x):
    """the entry [y, x] of an array given by its body over y__ x__"""
    return re.sub(r"\b(y__|x__)\b", lambda m: y if m.group(1) == YV else x, body)


def fn2(body):
    """the function  y -> x -> entry  of an array body (eta-reduced when the body is `(f y__ x__)`)"""
    m = re.fullmatch(r"\((.+) y__ x__\)", body)
    if m and not re.search(r"\b(y__|x__)\b", m.group(1)) and balanced(m.group(1)):
        return m.group(1)
    return "(fun %s %s : Z => %s)" % (YV, XV, body)


def balanced(t):
    d = 0
    for ch in t:
        d += ch == "("
        d -= ch == ")"
        if d < 0:
            return False
    return d == 0


class Val:
    __slots__ = ("ty", "term", "lit", "num", "items", "shape", "size")

    def __init__(self, ty, term=None, lit=None, num=None, items=None, shape=None, size=None):
        self.ty, self.term, self.lit, self.num, self.items, self.shape, self.size = ty, term, lit, num, items, shape, size


def names_loaded(nodes):
    out = []
    for n in nodes:
        for x in ast.walk(n):
            if isinstance(x, ast.Name) and isinstance(x.ctx, ast.Load) and x.id not in out:
                out.append(x.id)
    return out


def names_stored(nodes):
    out = []
    for n in nodes:
        for x in ast.walk(n):
            t = None
            if isinstance(x, ast.Name) and isinstance(x.ctx, ast.Store):
                t = x.id
            elif isinstance(x, (ast.Subscript, ast.Attribute)) and isinstance(x.ctx, ast.Store):
                b = x.value
                while isinstance(b, (ast.Subscript, ast.Attribute)):
                    b = b.value
                if isinstance(b, ast.Name):
                    t = b.id
            if t is not None and t not in out:
                out.append(t)
    return out


# ---------------------------------------------------------------------------------------------
# expressions (shared by the kernel and the front end)
# ---------------------------------------------------------------------------------------------
class Reader:
    """symbolic evaluation of expressions; `front` enables the operations of model/PoissonFront.v (abs, maximum, sqrt, ==)"""

    def __init__(self, fname, np_name, front):
        self.fname, self.np_name, self.front = fname, np_name, front
        self.counter = {}
        self.draws = None          # list collecting the draws of the current straight-line block: (kind, var, lo, hi)
        self.draw_hint = None

    def err(self, node, msg):
        ln = getattr(node, "lineno", 0)
        seg = ""
        try:
            seg = ast.unparse(node) if isinstance(node, ast.AST) else ""
        except Exception:
            pass
        raise TranslationError("%s, %s line %d: %s%s" % (self.fname, SRC_NAME, ln, msg,
                                                          (": `%s`" % " ".join(seg.split())[:140]) if seg else ""))

    def fresh(self, hint):
        hint = mangle(hint)
        k = self.counter.get(hint, 0) + 1
        self.counter[hint] = k
        return hint if k == 1 else "%s_%d" % (hint.rstrip("_"), k)

    # ---- coercions ---------------------------------------------------------------------------
    def as_float(self, v, node):
        if v.ty in (F, HALF):
            return v.term
        if v.ty == Z:
            return "(pofZ %s)" % v.term                       # int meeting a float: float(n), exact below 2^53
        if v.ty == LIT:
            return "(pofZ %s)" % zlit(v.lit)
        self.err(node, "a value of kind %s where a float is expected" % v.ty)

    def as_int(self, v, node):
        if v.ty == Z:
            return v.term
        if v.ty == LIT:
            return zlit(v.lit)
        self.err(node, "a value of kind %s where a Python int is expected" % v.ty)

    # ---- arithmetic --------------------------------------------------------------------------
    def scalar_binop(self, op, a, b, node):
        for v in (a, b):
            if v.ty not in (Z, F, LIT, FLIT, HALF, PI):
                self.err(node, "arithmetic on a value of kind %s" % v.ty)
        if op == "pow":
            if a.ty in (F, HALF) and b.ty == LIT and b.lit == 2:
                return Val(F, "(psq %s)" % a.term)            # x ** 2 is x * x (reading of model/Poisson.v)
            if a.ty in (F, HALF) and b.ty == FLIT and b.lit == 0.5:
                return Val(F, "(ppowhalf %s)" % a.term)
            self.err(node, "power other than <float> ** 2 and <float> ** 0.5")
        if PI in (a.ty, b.ty):
            if op == "mul" and a.ty == LIT and a.lit == 2 and b.ty == PI:
                return Val(F, "ptwopi")
            self.err(node, "np.pi other than in `2 * np.pi`")
        if FLIT in (a.ty, b.ty):
            self.err(node, "a float literal in arithmetic (the model has only integer constants and the exponent 0.5)")
        ints = a.ty in (Z, LIT) and b.ty in (Z, LIT)
        if ints:
            if a.ty == LIT and b.ty == LIT:
                if op in ("add", "sub", "mul"):
                    return Val(LIT, lit={"add": a.lit + b.lit, "sub": a.lit - b.lit, "mul": a.lit * b.lit}[op])
                self.err(node, "division of two integer literals")
            x, y = self.as_int(a, node), self.as_int(b, node)
            if op in ("add", "sub", "mul"):
                return Val(Z, "(%s %s %s)" % (x, {"add": "+", "sub": "-", "mul": "*"}[op], y))
            if op == "floordiv":
                return Val(Z, "(%s / %s)" % (x, y))            # Python // is Coq's Z.div (floor; sign of the divisor)
            if op == "div":
                term = "(pdiv (pofZ %s) (pofZ %s))" % (x, y)
                if b.ty == LIT and b.lit == 2:
                    return Val(HALF, term, num=x)              # n / 2: exact, remembered for int(n/2 -+ c/2)
                return Val(F, term)
        if op == "floordiv":
            self.err(node, "// on floats")
        if a.ty == HALF and b.ty == HALF and op in ("add", "sub"):
            sym, fop = ("+", "padd") if op == "add" else ("-", "psub")
            return Val(HALF, "(%s %s %s)" % (fop, a.term, b.term), num="(%s %s %s)" % (a.num, sym, b.num))
        fop = {"add": "padd", "sub": "psub", "mul": "pmul", "div": "pdiv"}[op]
        return Val(F, "(%s %s %s)" % (fop, self.as_float(a, node), self.as_float(b, node)))

    def lift2(self, f, a, b, node, kinds):
        """elementwise on arrays of one shape / array with scalar; kinds: scalar kind -> array kind"""
        sh = None
        for v in (a, b):
            if v.ty in ARRAYS:
                if v.ty == M2 and kinds is not CMP_KINDS:
                    self.err(node, "arithmetic on the mask (the model only writes 0 / 1 into it, crops it and sums it)")
                if sh is not None and sh != v.shape:
                    self.err(node, "elementwise operation on arrays of different shapes")
                sh = v.shape

        def elt(v):
            if v.ty not in ARRAYS:
                return v
            return Val(ELT[v.ty], v.term)
        r = f(elt(a), elt(b))
        if r.ty == LIT:
            self.err(node, "array of literals")
        if r.ty not in kinds:
            self.err(node, "elementwise result of kind %s" % r.ty)
        return Val(kinds[r.ty], r.term, shape=sh)

    def binop(self, op, a, b, node):
        if a.ty in ARRAYS or b.ty in ARRAYS:
            return self.lift2(lambda x, y: self.scalar_binop(op, x, y, node), a, b, node, ARITH_KINDS)
        return self.scalar_binop(op, a, b, node)

    def scalar_compare(self, op, a, b, node):
        for v in (a, b):
            if v.ty not in (Z, F, LIT, HALF):
                self.err(node, "comparison of a value of kind %s" % v.ty)
        if a.ty == LIT and b.ty == LIT:
            self.err(node, "comparison of two literals")
        if a.ty in (F, HALF) or b.ty in (F, HALF):
            x, y = self.as_float(a, node), self.as_float(b, node)
            if op == "lt":
                return Val(B, "(pltb %s %s)" % (x, y))
            if op == "gt":
                return Val(B, "(pltb %s %s)" % (y, x))          # a > b  is  b < a
            if op == "le":
                return Val(B, "(pleb %s %s)" % (x, y))
            if op == "ge":
                return Val(B, "(pleb %s %s)" % (y, x))          # a >= b  is  b <= a
            if op == "eq" and self.front:
                return Val(B, "(peqb %s %s)" % (x, y))
            self.err(node, "float comparison `%s` has no counterpart in the model" % op)
        x, y = self.as_int(a, node), self.as_int(b, node)
        fmt = {"lt": "(%s <? %s)", "le": "(%s <=? %s)", "eq": "(%s =? %s)"}
        if op in fmt:
            return Val(B, fmt[op] % (x, y))
        if op in ("gt", "ge"):
            return Val(B, {"gt": "(%s <? %s)", "ge": "(%s <=? %s)"}[op] % (y, x))
        self.err(node, "comparison operator not understood")

    def compare(self, op, a, b, node):
        if a.ty in ARRAYS or b.ty in ARRAYS:
            return self.lift2(lambda x, y: self.scalar_compare(op, x, y, node), a, b, node, CMP_KINDS)
        return self.scalar_compare(op, a, b, node)

    @staticmethod
    def conj(terms, sym="&&"):
        t = terms[0]
        for u in terms[1:]:
            t = "%s %s %s" % (t, sym, u)
        return t if len(terms) == 1 else "(%s)" % t

    # ---- expressions -------------------------------------------------------------------------
    def ev(self, n, env):
        if isinstance(n, ast.Constant):
            if n.value is None:
                return Val(NONE)
            if isinstance(n.value, bool):
                return Val(B, "true" if n.value else "false")
            if isinstance(n.value, int):
                return Val(LIT, lit=n.value)
            if isinstance(n.value, float):
                return Val(FLIT, lit=n.value)
            self.err(n, "constant not understood")
        if isinstance(n, ast.Name):
            if n.id in env:
                v = env[n.id]
                if v is None:
                    self.err(n, "the name is not readable here (not bound on this path, or private to a loop)")
                return v
            if n.id == self.np_name:
                return Val(MOD, "np")
            self.err(n, "unknown name (not a parameter, not assigned on this path)")
        if isinstance(n, ast.Attribute):
            v = self.ev(n.value, env)
            if v.ty == MOD and v.term == "np" and n.attr == "pi":
                return Val(PI)
            if v.ty == MOD and v.term == "np" and n.attr == "random":
                return Val(MOD, "np.random")
            if v.ty == MOD and v.term == "np" and n.attr == "int32":
                return Val(OPAQUE, "np.int32")
            self.err(n, "attribute not understood")
        if isinstance(n, ast.UnaryOp) and isinstance(n.op, ast.USub):
            v = self.ev(n.operand, env)
            if v.ty == LIT:
                return Val(LIT, lit=-v.lit)
            self.err(n, "unary minus on something other than a literal (the model has no negation)")
        if isinstance(n, ast.BinOp):
            if type(n.op) not in ARITH:
                self.err(n, "binary operator not understood")
            a = self.ev(n.left, env)                              # left operand first (order of the draws)
            b = self.ev(n.right, env)
            return self.binop(ARITH[type(n.op)], a, b, n)
        if isinstance(n, ast.Compare):
            if any(type(o) not in CMP for o in n.ops):
                if len(n.ops) == 1 and isinstance(n.ops[0], (ast.Is, ast.IsNot)):
                    self.err(n, "`is` / `is not` outside the pinned `if seed is not None:` statements")
                self.err(n, "comparison form not understood")
            vals = [self.ev(n.left, env)] + [self.ev(c, env) for c in n.comparators]
            parts = [self.compare(CMP[type(o)], vals[i], vals[i + 1], n) for i, o in enumerate(n.ops)]
            if len(parts) == 1:
                return parts[0]
            if any(p.ty != B for p in parts):
                self.err(n, "chained comparison of arrays")
            return Val(B, self.conj([p.term for p in parts]))     # a > b > c  is  (a > b) and (b > c)
        if isinstance(n, ast.BoolOp):
            vals = [self.ev(v, env) for v in n.values]
            if any(v.ty != B for v in vals):
                self.err(n, "and / or of something that is not a bool")
            return Val(B, self.conj([v.term for v in vals], "&&" if isinstance(n.op, ast.And) else "||"))
        if isinstance(n, ast.Tuple):
            vals = [self.ev(e, env) for e in n.elts]
            if len(vals) == 2 and all(v.ty in (Z, LIT) for v in vals):
                return Val(PAIR, items=[Val(Z, self.as_int(v, n)) for v in vals])
            self.err(n, "tuple other than a pair of ints")
        if isinstance(n, ast.Subscript):
            return self.subscript(n, env)
        if isinstance(n, ast.Call):
            return self.call(n, env)
        self.err(n, "expression form not understood (%s)" % type(n).__name__)

    def index_pair(self, sl, env, node):
        if not (isinstance(sl, ast.Tuple) and len(sl.elts) == 2):
            self.err(node, "a 2-D array is indexed by other than two indices")
        out = []
        for e in sl.elts:
            v = self.ev(e, env)
            if v.ty not in (Z, LIT):
                self.err(node, "array index that is not a Python int")
            out.append(self.as_int(v, node))
        return out

    def subscript(self, n, env):
        # np.mgrid[:a, :b]
        if isinstance(n.value, ast.Attribute) and n.value.attr == "mgrid":
            if not self.front or self.ev(n.value.value, env).ty != MOD:
                self.err(n, "np.mgrid not understood here")
            sl = n.slice
            if not (isinstance(sl, ast.Tuple) and len(sl.elts) == 2 and all(
                    isinstance(e, ast.Slice) and e.lower is None and e.step is None and e.upper is not None for e in sl.elts)):
                self.err(n, "np.mgrid other than np.mgrid[:a, :b]")
            dims = [self.ev(e.upper, env) for e in sl.elts]
            if any(d.ty != Z for d in dims):
                self.err(n, "np.mgrid bounds that are not ints")
            shape = (dims[0].term, dims[1].term)
            return Val("mgrid", items=[Val(I2, YV, shape=shape), Val(I2, XV, shape=shape)])      # y[i, j] = i, x[i, j] = j
        v = self.ev(n.value, env)
        if v.ty == PAIR:
            i = self.ev(n.slice, env)
            if i.ty != LIT or i.lit not in (-2, -1, 0, 1):
                self.err(n, "a length-2 tuple is indexed by other than -2, -1, 0, 1")
            return v.items[i.lit % 2]
        if v.ty == A1:
            i = self.ev(n.slice, env)
            if i.ty not in (Z, LIT):
                self.err(n, "array index that is not a Python int")
            return Val(Z, "(%s %s)" % (v.term, self.as_int(i, n)))
        if v.ty in (A2, M2):
            y, x = self.index_pair(n.slice, env, n)
            return Val(ELT[v.ty], at(v.term, y, x))
        self.err(n, "subscript of a value of kind %s" % v.ty)

    def draw(self, kind, node, lo=None, hi=None):
        if self.draws is None:
            self.err(node, "a random draw where the model has none")
        hint, self.draw_hint = self.draw_hint, None
        if hint:
            name = self.fresh(hint)
        else:
            k = self.counter.get("#" + kind, 0) + 1
            self.counter["#" + kind] = k
            name = "%s_%d" % ("d" if kind == "DInt" else "u", k)
        self.draws.append((kind, name, lo, hi))
        return Val(Z if kind == "DInt" else F, name)

    def call(self, n, env):
        f = n.func
        if n.keywords:
            self.err(n, "keyword arguments not understood")
        nargs = len(n.args)
        builtin = f.id if isinstance(f, ast.Name) and f.id not in env else None
        modf = None
        if isinstance(f, ast.Attribute):
            try:
                base = self.ev(f.value, env) if not isinstance(f.value, ast.Call) else None
            except TranslationError:
                base = None
            if base is not None and base.ty == MOD:
                modf = base.term + "." + f.attr

        def one():
            if nargs != 1:
                self.err(n, "one argument expected")
            return self.ev(n.args[0], env)
        if modf == "np.random.random":
            if nargs:
                self.err(n, "np.random.random takes no argument here")
            return self.draw("DFloat", n)
        if modf == "np.random.randint":
            if nargs != 2:
                self.err(n, "np.random.randint(lo, hi) expected")
            lo, hi = [self.ev(a, env) for a in n.args]
            return self.draw("DInt", n, self.as_int(lo, n), self.as_int(hi, n))
        if modf in ("np.cos", "np.sin"):
            v = one()
            if v.ty != F:
                self.err(n, "%s of something that is not a float of the model" % modf)
            return Val(F, "(%s %s)" % ("pcos" if modf == "np.cos" else "psin", v.term))
        if builtin == "int":
            v = one()
            if v.ty == HALF:
                return Val(Z, "(Z.quot %s 2)" % v.num)            # int(n/2 -+ c/2): exact halves, truncation toward zero
            if v.ty == F:
                return Val(Z, "(ptrunc %s)" % v.term)
            if v.ty in (Z, LIT):
                return Val(Z, self.as_int(v, n))
            self.err(n, "int() of a value of kind %s" % v.ty)
        if builtin in ("max", "min"):
            if nargs != 2:
                self.err(n, "%s with other than two arguments" % builtin)
            a, b = [self.ev(x, env) for x in n.args]
            if not all(v.ty in (Z, LIT) for v in (a, b)) or (a.ty == LIT and b.ty == LIT):
                self.err(n, "%s of floats (the model has only the integer Z.max / Z.min)" % builtin)
            return Val(Z, "(Z.%s %s %s)" % (builtin, self.as_int(a, n), self.as_int(b, n)))
        if builtin == "abs" or modf == "np.abs":
            v = one()
            if not self.front:
                self.err(n, "abs has no counterpart in the kernel's operations")
            if v.ty in (F, HALF):
                return Val(F, "(pabs %s)" % v.term)
            if v.ty == A2:
                return Val(A2, "(pabs %s)" % v.term, shape=v.shape)
            self.err(n, "abs of a value of kind %s" % v.ty)
        if modf == "np.sqrt":
            v = one()
            if not self.front or v.ty != A2:
                self.err(n, "np.sqrt of something other than a float array of the front end")
            return Val(A2, "(psqrt %s)" % v.term, shape=v.shape)
        if modf == "np.maximum" or modf == "np.clip":
            if not self.front:
                self.err(n, "%s has no counterpart in the kernel's operations" % modf)
            if modf == "np.clip":
                if nargs != 3 or not (isinstance(n.args[2], ast.Constant) and n.args[2].value is None):
                    self.err(n, "np.clip other than np.clip(a, lo, None)")       # = np.maximum(a, lo)
            elif nargs != 2:
                self.err(n, "np.maximum takes two arguments")
            a, b = self.ev(n.args[0], env), self.ev(n.args[1], env)
            if a.ty != A2 or b.ty not in (LIT, F, Z):
                self.err(n, "%s of other than (float array, scalar)" % modf)
            return Val(A2, "(pmax %s %s)" % (a.term, self.as_float(b, n)), shape=a.shape)
        if modf == "np.sum":
            v = one()
            if v.ty != M2:
                self.err(n, "np.sum of something other than the mask")
            # the mask holds 0.0 / 1.0: its float sum is the integer count (exact), then it meets floats
            return Val(F, "(pofZ (msum %s %s %s))" % (v.shape[1], v.shape[0], fn2(v.term)))
        if isinstance(f, ast.Attribute) and f.attr == "max" and modf is None:
            v = self.ev(f.value, env)
            if not self.front or nargs or v.ty != A2:
                self.err(n, ".max() of something other than a float array of the front end")
            return Val(F, "(amax2 pmax %s %s %s)" % (v.shape[0], v.shape[1], fn2(v.term)))
        if modf == "np.zeros":
            v = one()
            if v.ty != PAIR:
                self.err(n, "np.zeros of a shape other than a pair of ints")
            return Val(M2, "0", shape=(v.items[0].term, v.items[1].term))
        if modf == "np.empty":
            if nargs != 2 or self.ev(n.args[1], env).term != "np.int32":
                self.err(n, "np.empty other than np.empty(<int>, np.int32)")
            v = self.ev(n.args[0], env)
            if v.ty != Z:
                self.err(n, "np.empty size that is not an int")
            return Val(A1, "(fun _ => 0)", size=v.term)            # unspecified contents: the model's arrays start at 0
        return self.call_other(n, env, modf, builtin)

    def call_other(self, n, env, modf, builtin):
        self.err(n, "call not understood")


ARITH_KINDS = {Z: I2, F: A2, HALF: A2}
CMP_KINDS = {B: B2}
ARITH = {ast.Add: "add", ast.Sub: "sub", ast.Mult: "mul", ast.Div: "div", ast.Pow: "pow", ast.FloorDiv: "floordiv"}
CMP = {ast.Lt: "lt", ast.LtE: "le", ast.Gt: "gt", ast.GtE: "ge", ast.Eq: "eq"}


# ---------------------------------------------------------------------------------------------
# statements shared by the kernel's blocks
# ---------------------------------------------------------------------------------------------
class Blocks(Reader):
    def bind_scalar(self, env, lines, name, v, node):
        """name = <scalar>: a `let` (nothing when the value is a bare variable such as a draw)"""
        check_name(name, "%s, %s line %d" % (self.fname, SRC_NAME, node.lineno))
        if v.ty == LIT:
            env[name] = v
            return
        if v.ty == HALF:
            v = Val(F, v.term)
        if v.ty not in (Z, F, B):
            self.err(node, "a value of kind %s is assigned to a local of a loop body" % v.ty)
        if re.fullmatch(r"[A-Za-z_][A-Za-z0-9_']*", v.term) and v.term == mangle(name):
            env[name] = v
            return
        nm = self.fresh(name)
        lines.append("let %s := %s in   (* L%d: %s *)" % (nm, v.term, node.lineno, san(ast.unparse(node))))
        env[name] = Val(v.ty, nm)

    def assign_sub(self, t, v, env, node):
        """<array>[...] = <value>  as a functional update of the array's symbolic value"""
        if not isinstance(t.value, ast.Name) or env.get(t.value.id) is None:
            self.err(node, "assignment into something that is not a local array")
        arr = env[t.value.id]
        if arr.ty == A1:
            i = self.ev(t.slice, env)
            if i.ty not in (Z, LIT):
                self.err(node, "array index that is not a Python int")
            if v.ty == F:
                val = "(ptrunc %s)" % v.term                     # a float stored into an int32 array: C cast, truncation
            elif v.ty in (Z, LIT):
                val = self.as_int(v, node)
            else:
                self.err(node, "a value of kind %s is stored into an int array" % v.ty)
            env[t.value.id] = Val(A1, "(zupd %s %s %s)" % (arr.term, self.as_int(i, node), val), size=arr.size)
            return
        if arr.ty == M2:
            if v.ty != LIT:
                self.err(node, "the mask is assigned something other than an integer literal")
            sl = t.slice
            if isinstance(sl, ast.Tuple) and len(sl.elts) == 2 and all(isinstance(e, ast.Slice) for e in sl.elts):
                conds = []
                for e, var in zip(sl.elts, (YV, XV)):
                    if e.step is not None or e.lower is None or e.upper is None:
                        self.err(node, "slice other than lower:upper")
                    lo, hi = self.ev(e.lower, env), self.ev(e.upper, env)
                    if lo.ty not in (Z, LIT) or hi.ty not in (Z, LIT):
                        self.err(node, "slice bound that is not a Python int")
                    # reading: 0 <= lower, upper <= n (no clipping, no negative wrap-around): precondition 0 <= calib <= n
                    conds += ["(%s <=? %s)" % (self.as_int(lo, node), var), "(%s <? %s)" % (var, self.as_int(hi, node))]
                cond = self.conj(conds)
            else:
                y, x = self.index_pair(sl, env, node)
                cond = "((%s =? %s) && (%s =? %s))" % (YV, y, XV, x)
            env[t.value.id] = Val(M2, "(if %s then %s else %s)" % (cond, zlit(v.lit), arr.term), shape=arr.shape)
            return
        self.err(node, "assignment into a value of kind %s" % arr.ty)

    def is_seed_test(self, test, env):
        return isinstance(test, ast.Compare) and len(test.ops) == 1 and isinstance(test.ops[0], ast.IsNot) \
            and isinstance(test.left, ast.Name) and env.get(test.left.id) is not None and env[test.left.id].ty == SEED \
            and isinstance(test.comparators[0], ast.Constant) and test.comparators[0].value is None

    @staticmethod
    def is_doc(s):
        return isinstance(s, ast.Pass) or (isinstance(s, ast.Expr) and isinstance(s.value, ast.Constant)
                                           and isinstance(s.value.value, str))

    def draw_pattern(self, draws, rest):
        """(pattern on the stream, conjunction of the range tests of the randint draws or None)"""
        pat = " :: ".join(["%s %s" % (k, nm) for k, nm, _, _ in draws] + [rest])
        conds = []
        for k, nm, lo, hi in draws:
            if k == "DInt":
                conds += ["(%s <=? %s)" % (lo, nm), "(%s <? %s)" % (nm, hi)]      # numpy's contract: lo <= value < hi
        return pat, (self.conj(conds) if conds else None)


def ind(lines, k=2):
    return [" " * k + x for x in lines]


# ---------------------------------------------------------------------------------------------
# _poisson
# ---------------------------------------------------------------------------------------------
class Kernel(Blocks):
    def __init__(self, fn, np_name, nb_name):
        super().__init__(fn.name, np_name, front=False)
        self.fn, self.nb_name = fn, nb_name

    def header(self):
        fn, a = self.fn, self.fn.args
        d = fn.decorator_list
        ok = len(d) == 1 and isinstance(d[0], ast.Call) and isinstance(d[0].func, ast.Attribute) and d[0].func.attr == "jit" \
            and isinstance(d[0].func.value, ast.Name) and d[0].func.value.id == self.nb_name and not d[0].args \
            and sorted((k.arg, getattr(k.value, "value", "?")) for k in d[0].keywords) == [("cache", True), ("nopython", True)]
        if not ok:
            raise TranslationError("%s: decorator other than @nb.jit(nopython=True, cache=True)" % fn.name)
        if a.vararg or a.kwarg or a.kwonlyargs or a.posonlyargs or len(a.args) != 7 or len(a.defaults) != 1 \
                or not (isinstance(a.defaults[0], ast.Constant) and a.defaults[0].value is None):
            raise TranslationError("%s, %s line %d: signature other than (nx, ny, max_attempts, radius_x, radius_y, calib, seed=None)"
                                   % (fn.name, SRC_NAME, fn.lineno))
        names = [x.arg for x in a.args]
        for nm in names:
            check_name(nm, fn.name)
        if len(set(names)) != 7:
            raise TranslationError("%s: repeated parameter" % fn.name)
        P = [mangle(nm) for nm in names]
        self.P = P
        self.ret_shape = (P[1], P[0])
        env = {names[0]: Val(Z, P[0]), names[1]: Val(Z, P[1]), names[2]: Val(Z, P[2]),
               # the radius arrays are indexed [y, x]; their shape is the caller's obligation (checked at the call in poisson)
               names[3]: Val(A2, "(%s %s %s)" % (P[3], YV, XV), shape=self.ret_shape),
               names[4]: Val(A2, "(%s %s %s)" % (P[4], YV, XV), shape=self.ret_shape),
               names[5]: Val(PAIR, items=[Val(Z, P[5] + "_0"), Val(Z, P[5] + "_1")]),     # length-2 tuple: calib[-2], calib[-1]
               names[6]: Val(SEED, P[6])}
        self.seed_name = names[6]
        return env

    # ---- the prologue: everything before the main loop -----------------------------------------
    def prologue(self, stmts, env):
        self.draws = []
        self.seeded = False
        order = []
        for s in stmts:
            if self.is_doc(s):
                continue
            if isinstance(s, ast.If):
                # np.random.seed only determines the stream of draws; it is not an item of the stream
                b = s.body[0] if len(s.body) == 1 else None
                ok = self.is_seed_test(s.test, env) and not s.orelse and isinstance(b, ast.Expr) \
                    and " ".join(ast.unparse(b).split()) == "%s.random.seed(int(%s))" % (self.np_name, self.seed_name)
                if not ok:
                    self.err(s, "`if` other than the pinned `if seed is not None: np.random.seed(int(seed))`")
                if self.draws or self.seeded:
                    self.err(s, "the generator is seeded after a draw / twice (the model's stream is determined by the seed from its first item)")
                self.seeded = True
                continue
            if not isinstance(s, ast.Assign) or len(s.targets) != 1:
                self.err(s, "statement form not understood before the main loop (%s)" % type(s).__name__)
            t = s.targets[0]
            v = self.ev(s.value, env)
            if isinstance(t, ast.Name):
                check_name(t.id, "%s, %s line %d" % (self.fname, SRC_NAME, s.lineno))
                if v.ty not in (M2, A1, Z, LIT, F):
                    self.err(s, "a value of kind %s is assigned before the main loop" % v.ty)
                if t.id in env and env[t.id] is not None and env[t.id].ty in (PAIR, SEED, A2):
                    self.err(s, "a parameter array / tuple is rebound")
                if t.id not in order:
                    order.append(t.id)
                env[t.id] = v                                    # inlined: the prologue is split over several definitions
            elif isinstance(t, ast.Subscript):
                self.assign_sub(t, v, env, s)
            else:
                self.err(s, "assignment target not understood")
        return order

    # ---- the whole function ------------------------------------------------------------------------
    def translate(self):
        env = self.header()
        body = [s for s in self.fn.body if not self.is_doc(s)]
        for node in ast.walk(self.fn):
            if isinstance(node, (ast.Global, ast.Nonlocal, ast.FunctionDef, ast.AsyncFunctionDef, ast.Lambda, ast.ClassDef,
                                 ast.Try, ast.With, ast.Raise, ast.Assert, ast.Delete, ast.ListComp, ast.IfExp)) and node is not self.fn:
                self.err(node, "construct outside the accepted fragment (%s)" % type(node).__name__)
        w = [i for i, s in enumerate(body) if isinstance(s, ast.While)]
        if len(w) != 1:
            raise TranslationError("%s: exactly one top-level `while` expected, found %d" % (self.fname, len(w)))
        w = w[0]
        loop = body[w]
        if loop.orelse:
            self.err(loop, "while ... else")
        order = self.prologue(body[:w], env)
        draws0 = self.draws
        self.draws = None
        if not self.seeded:
            raise TranslationError("%s: the pinned `if seed is not None: np.random.seed(int(seed))` is missing before the first draw "
                                   "(the model's stream of draws is a function of the seed)" % self.fname)
        if [k for k, _, _, _ in draws0] != ["DInt", "DInt"]:
            raise TranslationError("%s: the model draws exactly two randint values before the main loop, the source %s"
                                   % (self.fname, [k for k, _, _, _ in draws0]))
        # the state of the main loop: what its body assigns among the locals that exist before it
        carried = [nm for nm in names_stored(loop.body) if env.get(nm) is not None]
        kinds = sorted(env[nm].ty if env[nm].ty != LIT else Z for nm in carried)
        if kinds != sorted([M2, A1, A1, Z]):
            self.err(loop, "the main loop updates %s; the model's state is (mask, pxs, pys, num_actives)" % carried)
        mvar = [nm for nm in carried if env[nm].ty == M2][0]
        avars = [nm for nm in order if nm in carried and env[nm].ty == A1]          # order of creation: pxs, pys
        nvar = [nm for nm in carried if env[nm].ty in (Z, LIT)][0]
        self.state = (mvar, avars[0], avars[1], nvar)
        dnames = [nm for _, nm, _, _ in draws0]
        out = []
        # -- the mask before the loop
        mbody = env[mvar].term
        if any(re.search(r"\b%s\b" % re.escape(d), mbody) for d in dnames):
            self.err(loop, "the initial mask depends on a random draw")
        if env[mvar].shape != self.ret_shape:
            self.err(loop, "the mask is not of shape (ny, nx)")
        out.append(("gen_init_mask", "Definition gen_init_mask : Z -> Z -> Z :=\n  fun %s %s : Z => %s." % (YV, XV, mbody),
                    "Lemma gen_init_mask_ok : gen_init_mask = init_mask {ny} {nx} {c}_0 {c}_1.\nProof. reflexivity. Qed."))
        # -- the loop body and the guard
        out += self.step(loop, env)
        # -- the state at loop entry, from the two draws
        cap = "(%s * %s)" % (self.P[0], self.P[1])
        for a in avars:
            if env[a].size not in (cap, "(%s * %s)" % (self.P[1], self.P[0])):
                self.err(loop, "the active list `%s` does not have nx * ny entries (the bound of the main loop)" % a)
        init = "mkPState gen_init_mask %s %s %s" % (env[avars[0]].term, env[avars[1]].term, self.as_int(env[nvar], loop))
        zero = init
        for d in dnames:
            zero = re.sub(r"\b%s\b" % re.escape(d), "0", zero)
        pat, cond = self.draw_pattern(draws0, "s'")
        lines = ["Definition gen_poisson_run (fuel : nat) (s : list (draw T)) : pstate * list (draw T) * status :=",
                 "  (* a stream that does not offer the draws (or a randint value outside [lo, hi)) is BadStream; the state then",
                 "     reported is the initial state with 0 for the draws, the stream is untouched *)",
                 "  match s with",
                 "  | %s =>" % pat,
                 "      if %s then gen_run fuel (%s) s'" % (cond, init),
                 "      else (%s, s, BadStream)" % zero,
                 "  | _ => (%s, s, BadStream)" % zero,
                 "  end."]
        out.append(("gen_poisson_run", "\n".join(lines),
                    "Lemma gen_poisson_run_ok : forall fuel s,\n  gen_poisson_run fuel s = poisson_run {nx} {ny} {ma} {rx} {ry} fuel {c}_0 {c}_1 s.\n"
                    "Proof. intros. unfold gen_poisson_run, poisson_run, init_state. tie_rw ltac:(rewrite gen_run_ok). Qed."))
        # -- the returned value
        tail = body[w + 1:]
        if len(tail) != 1 or not isinstance(tail[0], ast.Return) or not isinstance(tail[0].value, ast.Name) \
                or tail[0].value.id != mvar:
            self.err(tail[0] if tail else loop, "after the main loop the model has exactly `return <the mask>`")
        names = dict(nx=self.P[0], ny=self.P[1], ma=self.P[2], rx=self.P[3], ry=self.P[4], c=self.P[5])
        return [(n, d, l.format(**names)) for n, d, l in out]

    # ---- one iteration of the main loop ----------------------------------------------------------
    def step(self, loop, env0):
        mvar, xvar, yvar, nvar = self.state
        out = []
        env = dict(env0)
        for nm in list(env):
            if env[nm] is not None and env[nm].ty in (M2, A1) or nm == nvar:
                env[nm] = None                                   # prologue arrays: only the state is visible in the loop
        env[mvar] = Val(M2, "((mask st) %s %s)" % (YV, XV), shape=self.ret_shape)
        env[xvar] = Val(A1, "(pxs st)")
        env[yvar] = Val(A1, "(pys st)")
        env[nvar] = Val(Z, "(na st)")
        g = self.ev(loop.test, env)
        if g.ty != B:
            self.err(loop.test, "the guard of the main loop is not a test")
        out.append(("gen_running", "Definition gen_running (st : pstate) : bool := %s.   (* L%d: while %s *)"
                    % (g.term, loop.lineno, san(ast.unparse(loop.test))),
                    "Lemma gen_running_ok : forall st, gen_running st = running {nx} {ny} st.\nProof. intros. unfold gen_running, running. tie. Qed."))
        body = [s for s in loop.body if not self.is_doc(s)]
        j = [i for i, s in enumerate(body) if isinstance(s, ast.While)]
        if len(j) != 1 or len(body) != j[0] + 2:
            self.err(loop, "the body of the main loop is not <draw and reads>; <flag = False; k = 0>; <while ...>; <if flag: .. else: ..>")
        j = j[0]
        inner, post = body[j], body[j + 1]
        # while not flag and k < N
        t = inner.test
        ok = isinstance(t, ast.BoolOp) and isinstance(t.op, ast.And) and len(t.values) == 2 \
            and isinstance(t.values[0], ast.UnaryOp) and isinstance(t.values[0].op, ast.Not) and isinstance(t.values[0].operand, ast.Name) \
            and isinstance(t.values[1], ast.Compare) and len(t.values[1].ops) == 1 and isinstance(t.values[1].ops[0], (ast.Lt, ast.LtE)) \
            and isinstance(t.values[1].left, ast.Name)
        if not ok or inner.orelse:
            self.err(inner, "the inner loop is not `while not <flag> and <k> < <N>:`")
        flag, cnt = t.values[0].operand.id, t.values[1].left.id
        inits = body[j - 2:j] if j >= 2 else []
        got = {}
        for s in inits:
            if isinstance(s, ast.Assign) and len(s.targets) == 1 and isinstance(s.targets[0], ast.Name) and isinstance(s.value, ast.Constant):
                got[s.targets[0].id] = s.value.value
        if len(inits) != 2 or got.get(flag, None) is not False or got.get(cnt, None) != 0 or isinstance(got.get(cnt), bool):
            self.err(inner, "the inner loop is not preceded by `%s = False` and `%s = 0`" % (flag, cnt))
        if not (isinstance(post, ast.If) and isinstance(post.test, ast.Name) and post.test.id == flag):
            self.err(post, "the inner loop is not followed by `if %s: .. else: ..`" % flag)
        # -- block 1: the draw of the active point and what is read from it
        self.draws = []
        lines1, locals1 = [], []
        for s in body[:j - 2]:
            if not (isinstance(s, ast.Assign) and len(s.targets) == 1 and isinstance(s.targets[0], ast.Name)):
                self.err(s, "statement form not understood at the start of the main loop's body")
            nm = s.targets[0].id
            if env.get(nm) is not None or nm in (flag, cnt):
                self.err(s, "a parameter / state variable is rebound")
            if isinstance(s.value, ast.Call):
                self.draw_hint = nm
            v = self.ev(s.value, env)
            self.draw_hint = None
            self.bind_scalar(env, lines1, nm, v, s)
            locals1.append(nm)
        draws1, self.draws = self.draws, None
        if not draws1:
            self.err(loop, "an iteration of the main loop draws nothing before its attempts")
        # -- the inner loop
        n = self.ev(t.values[1].comparators[0], env)
        count = self.as_int(n, inner)
        count = "(Z.to_nat %s)" % (count if isinstance(t.values[1].ops[0], ast.Lt) else "(%s + 1)" % count)
        carried = [nm for nm in names_stored(inner.body) if nm in names_loaded([post]) and nm not in (flag, cnt)]
        if len(carried) != 2:
            self.err(inner, "the inner loop hands %s to the rest of the body; the model carries the two coordinates of the last point" % carried)
        used = names_loaded([inner])
        params = [nm for nm in locals1 if nm in used]
        if [env[nm].ty for nm in params] != [Z, Z, F, F] or any(env[nm] is not None and nm in used for nm in (xvar, yvar, nvar)):
            self.err(inner, "an attempt reads %s besides the mask; the model's attempts read (px, py, rx, ry)" % params)
        mparam = mangle(mvar)
        out += self.attempt(inner, env, flag, cnt, carried, params, mparam)
        pnames = [env[nm].term for nm in params]
        # -- the update
        pat, cond = self.draw_pattern(draws1, "s1")
        if cond is None:
            self.err(loop, "no randint draw at the start of the body")

        def branch(stmts, qs):
            e = dict(env)
            e[flag] = e[cnt] = None
            for nm in carried:
                e[nm] = None
            for nm, q in zip(carried, qs or []):
                e[nm] = Val(F, q)
            ls = []
            for s in stmts:
                if self.is_doc(s):
                    continue
                if isinstance(s, ast.Assign) and len(s.targets) == 1 and isinstance(s.targets[0], ast.Subscript):
                    self.assign_sub(s.targets[0], self.ev(s.value, e), e, s)
                elif isinstance(s, ast.AugAssign) and isinstance(s.target, ast.Name) and s.target.id == nvar \
                        and isinstance(s.op, (ast.Add, ast.Sub)):
                    e[nvar] = self.binop("add" if isinstance(s.op, ast.Add) else "sub", e[nvar], self.ev(s.value, e), s)
                    if e[nvar].ty != Z:
                        self.err(s, "num_actives becomes a value of kind %s" % e[nvar].ty)
                elif isinstance(s, ast.Assign) and len(s.targets) == 1 and isinstance(s.targets[0], ast.Name) \
                        and e.get(s.targets[0].id) is None and s.targets[0].id not in (flag, cnt):
                    self.bind_scalar(e, ls, s.targets[0].id, self.ev(s.value, e), s)
                else:
                    self.err(s, "statement form not understood in the update of the active list")
            return ls + ["Some (mkPState %s" % fn2(e[mvar].term), "               %s" % e[xvar].term,
                         "               %s" % e[yvar].term, "               %s, s2)" % e[nvar].term]
        qn = [self.fresh(nm) for nm in carried]
        lines = ["match s with", "| %s =>" % pat, "    if %s then" % cond] + ind(lines1, 6) + [
            "      match gen_attempts %s %s %s s1 (pofZ 0, pofZ 0) with" % (count, fn2(env[mvar].term), " ".join(pnames)),
            "      | Some (true, (%s, %s), s2) =>   (* L%d: if %s *)" % (qn[0], qn[1], post.lineno, flag)] \
            + ind(branch(post.body, qn), 10) + ["      | Some (false, _, s2) =>   (* else *)"] + ind(branch(post.orelse, None), 10) + [
            "      | None => None", "      end", "    else None", "| _ => None", "end."]
        out.append(("gen_step", "Definition gen_step (st : pstate) (s : list (draw T)) : option (pstate * list (draw T)) :=\n  "
                    + "\n  ".join(lines),
                    "Lemma gen_step_ok : forall st s, gen_step st s = step {nx} {ny} {ma} {rx} {ry} st s.\n"
                    "Proof. intros. unfold gen_step, step, mset. tie_rw ltac:(rewrite gen_attempts_ok). Qed."))
        out.append(("gen_run", "Definition gen_run (fuel : nat) (st : pstate) (s : list (draw T)) := gen_while gen_running gen_step fuel st s."
                    "   (* L%d: the main loop *)" % loop.lineno,
                    "Lemma gen_run_ok : forall fuel st s, gen_run fuel st s = run {nx} {ny} {ma} {rx} {ry} fuel st s.\n"
                    "Proof. intros. unfold gen_run. rewrite gen_run_while. apply gen_while_ext; [apply gen_running_ok | apply gen_step_ok]. Qed."))
        # order: running, attempts..., step, run  (gen_running first is fine: it depends on nothing)
        return out

    # ---- one attempt (a round of the inner loop) ---------------------------------------------------
    def attempt(self, inner, env_outer, flag, cnt, carried, params, mparam):
        mvar, xvar, yvar, nvar = self.state
        out = []
        body = [s for s in inner.body if not self.is_doc(s)]
        last = body[-1] if body else None
        ok = isinstance(last, ast.AugAssign) and isinstance(last.op, ast.Add) and isinstance(last.target, ast.Name) \
            and last.target.id == cnt and isinstance(last.value, ast.Constant) and last.value.value == 1 \
            and not isinstance(last.value.value, bool)
        if not ok or cnt in names_loaded(body[:-1]) or cnt in names_stored(body[:-1]):
            self.err(inner, "the counter `%s` is not incremented exactly once, as the last statement of the attempt" % cnt)
        body = body[:-1]
        if not body or not isinstance(body[-1], ast.If) or any(isinstance(s, (ast.If, ast.While, ast.For)) for s in body[:-1]):
            self.err(inner, "an attempt is not <draws and candidate point>; <if inside the grid: scan>; <k += 1>")
        test_if = body[-1]
        if test_if.orelse:
            self.err(test_if, "`else` of the in-grid test")
        env = dict(env_outer)
        for nm in (xvar, yvar, nvar, cnt):
            env[nm] = None
        env[mvar] = Val(M2, "(%s %s %s)" % (mparam, YV, XV), shape=self.ret_shape)
        env[flag] = Val(B, "false")                               # the guard `not flag` holds when a round starts
        env[carried[0]], env[carried[1]] = Val(F, "(fst q)"), Val(F, "(snd q)")
        # -- block 2: the candidate point
        self.draws = []
        lines2, locals2 = [], []
        for s in body[:-1]:
            if not (isinstance(s, ast.Assign) and len(s.targets) == 1 and isinstance(s.targets[0], ast.Name)):
                self.err(s, "statement form not understood in an attempt")
            nm = s.targets[0].id
            if nm in (flag, cnt, mvar) or (env.get(nm) is not None and nm not in carried and nm not in locals2):
                self.err(s, "a variable of the enclosing loop is rebound in an attempt")
            self.bind_scalar(env, lines2, nm, self.ev(s.value, env), s)
            if nm not in locals2:
                locals2.append(nm)
        draws2, self.draws = self.draws, None
        if any(k != "DFloat" for k, _, _, _ in draws2) or not draws2:
            self.err(inner, "an attempt draws %s; the model two np.random.random() values" % [k for k, _, _, _ in draws2])
        if any(nm not in locals2 or env[nm].ty != F for nm in carried):
            self.err(inner, "the coordinates handed on (%s) are not floats computed before the in-grid test" % carried)
        # -- the in-grid test and the scan
        cond = self.ev(test_if.test, env)
        if cond.ty != B:
            self.err(test_if.test, "the in-grid test is not a test")
        ibody = [s for s in test_if.body if not self.is_doc(s)]
        if len(ibody) < 2 or not isinstance(ibody[-1], ast.For):
            self.err(test_if, "the in-grid branch does not end with the scan `for x ..: for y ..: if conflict: flag = False; break`")
        scan, setflag = ibody[-1], ibody[-2]
        if not (isinstance(setflag, ast.Assign) and len(setflag.targets) == 1 and isinstance(setflag.targets[0], ast.Name)
                and setflag.targets[0].id == flag and isinstance(setflag.value, ast.Constant) and setflag.value.value is True):
            self.err(setflag, "the scan is not preceded by `%s = True`" % flag)
        lines3, locals3 = [], []
        for s in ibody[:-2]:
            if not (isinstance(s, ast.Assign) and len(s.targets) == 1 and isinstance(s.targets[0], ast.Name)):
                self.err(s, "statement form not understood before the scan")
            nm = s.targets[0].id
            if env.get(nm) is not None or nm in (flag, cnt):
                self.err(s, "a variable is rebound before the scan")
            self.bind_scalar(env, lines3, nm, self.ev(s.value, env), s)
            locals3.append(nm)
        # for x in range(a, b): for y in range(c, d): if C: flag = False; break / else: continue / break
        def rng(f):
            it = f.iter
            if not (isinstance(f.target, ast.Name) and isinstance(it, ast.Call) and isinstance(it.func, ast.Name) and it.func.id == "range"
                    and "range" not in env and len(it.args) == 2 and not it.keywords):
                self.err(f, "loop other than `for <name> in range(a, b)`")
            lo, hi = [self.ev(a, env) for a in it.args]
            return f.target.id, "(prange %s %s)" % (self.as_int(lo, f), self.as_int(hi, f))
        xv, xr = rng(scan)
        sb = scan.body
        ok = len(sb) == 2 and isinstance(sb[0], ast.For) and isinstance(sb[1], ast.Break) and not scan.orelse \
            and len(sb[0].orelse) == 1 and isinstance(sb[0].orelse[0], ast.Continue) and len(sb[0].body) == 1 \
            and isinstance(sb[0].body[0], ast.If) and not sb[0].body[0].orelse and len(sb[0].body[0].body) == 2 \
            and isinstance(sb[0].body[0].body[1], ast.Break)
        if ok:
            st = sb[0].body[0].body[0]
            ok = isinstance(st, ast.Assign) and len(st.targets) == 1 and isinstance(st.targets[0], ast.Name) and st.targets[0].id == flag \
                and isinstance(st.value, ast.Constant) and st.value.value is False
        if not ok:
            self.err(scan, "the scan is not the idiom `for x ..: for y ..: if <conflict>: %s = False; break / else: continue / break`" % flag)
        yv, yr = rng(sb[0])
        ctest = sb[0].body[0].test
        for v in (xv, yv):
            check_name(v, "%s, %s line %d" % (self.fname, SRC_NAME, scan.lineno))
            if env.get(v) is not None or v in (flag, cnt):
                self.err(scan, "the scan variable `%s` shadows a local" % v)
        if xv == yv or re.search(r"\b%s\b" % re.escape(mangle(xv)), yr):
            self.err(scan, "the inner range of the scan depends on the outer scan variable")
        envc = dict(env)
        envc[xv], envc[yv] = Val(Z, mangle(xv)), Val(Z, mangle(yv))
        c = self.ev(ctest, envc)
        if c.ty != B:
            self.err(ctest, "the conflict test is not a test")
        scalars = locals1_of(env_outer, params) + locals2 + locals3
        cfree = [nm for nm in scalars if nm in names_loaded([ctest])]
        if [env[nm].ty for nm in cfree] != [F, F]:
            self.err(ctest, "the conflict test reads the locals %s; the model's reads the candidate point (qx, qy)" % cfree)
        cargs = [env[nm].term for nm in cfree]
        out.append(("gen_conflict",
                    "Definition gen_conflict (%s : Z -> Z -> Z) (%s : T) (%s %s : Z) : bool :=   (* L%d *)\n  %s."
                    % (mparam, " ".join(cargs), mangle(xv), mangle(yv), ctest.lineno, c.term),
                    "Lemma gen_conflict_ok : forall m qx qy x y, gen_conflict m qx qy x y = conflict {rx} {ry} m qx qy x y.\n"
                    "Proof. intros. unfold gen_conflict, conflict. tie. Qed."))
        afree = [nm for nm in locals1_of(env_outer, params) + locals2 if nm in names_loaded([test_if])]
        if [env[nm].ty for nm in afree] != [F, F, F, F]:
            self.err(test_if, "the in-grid branch reads the locals %s; the model's reads (rx, ry, qx, qy)" % afree)
        aargs = [env[nm].term for nm in afree]
        scan_term = "negb (existsb (fun %s => existsb (fun %s => gen_conflict %s %s %s %s) %s) %s)" % (
            mangle(xv), mangle(yv), mparam, " ".join(cargs), mangle(xv), mangle(yv), yr, xr)
        lines = ["if %s then   (* L%d: if %s *)" % (cond.term, test_if.lineno, san(ast.unparse(test_if.test)))] + ind(lines3) + [
            "  (* L%d-%d: %s = True unless a conflicting sample lies in the window *)" % (setflag.lineno, scan.end_lineno, flag),
            "  %s" % scan_term, "else false.   (* %s is still False *)" % flag]
        out.append(("gen_accept", "Definition gen_accept (%s : Z -> Z -> Z) (%s : T) : bool :=\n  %s"
                    % (mparam, " ".join(aargs), "\n  ".join(lines)),
                    "Lemma gen_accept_ok : forall m rx ry qx qy, gen_accept m rx ry qx qy = accept {nx} {ny} {rx} {ry} m rx ry qx qy.\n"
                    "Proof. intros. unfold gen_accept, accept, in_grid, gen_conflict, conflict. tie. Qed."))
        pnames = [env[nm].term for nm in params]
        pat, _ = self.draw_pattern(draws2, "s'")
        qpair = "(%s, %s)" % (env[carried[0]].term, env[carried[1]].term)
        lines = ["match s with", "| %s =>" % pat] + ind(lines2, 4) + [
            "    if gen_accept %s %s then Some (true, %s, s') else Some (false, %s, s')" % (mparam, " ".join(aargs), qpair, qpair),
            "| _ => None", "end."]
        sig = "(%s : Z -> Z -> Z) (%s %s : Z) (%s %s : T)" % tuple([mparam] + pnames)
        out.append(("gen_attempt_body",
                    "Definition gen_attempt_body %s (q : T * T) (s : list (draw T))\n  : option (bool * (T * T) * list (draw T)) :=   (* L%d-%d *)\n  %s"
                    % (sig, inner.lineno, inner.end_lineno, "\n  ".join(lines)),
                    "Lemma gen_attempt_body_ok : forall m px py rx ry q s,\n  gen_attempt_body m px py rx ry q s = attempts {nx} {ny} {rx} {ry} 1 m px py rx ry s q.\n"
                    "Proof. intros. unfold gen_attempt_body. cbn [attempts]. tie_rw ltac:(rewrite gen_accept_ok). Qed."))
        out.append(("gen_attempts",
                    "Definition gen_attempts (k : nat) %s (s : list (draw T)) (q : T * T) :=\n  gen_tries (gen_attempt_body %s %s) k q s."
                    "   (* L%d: while %s *)" % (sig, mparam, " ".join(pnames), inner.lineno, san(ast.unparse(inner.test))),
                    "Lemma gen_attempts_ok : forall k m px py rx ry s q,\n  gen_attempts k m px py rx ry s q = attempts {nx} {ny} {rx} {ry} k m px py rx ry s q.\n"
                    "Proof. intros. unfold gen_attempts. rewrite gen_attempts_tries. apply gen_tries_ext. intros. apply gen_attempt_body_ok. Qed."))
        return out


def locals1_of(env, params):
    return list(params)


# ---------------------------------------------------------------------------------------------
# poisson
# ---------------------------------------------------------------------------------------------
FRONT_PARAMS = ["img_shape", "accel", "calib", "dtype", "crop_corner", "return_density", "seed", "max_attempts", "tol"]
FRONT_DEFAULTS = ["(0, 0)", "np.complex128", "True", "False", "0", "30", "0.1"]


class Front(Blocks):
    def __init__(self, fn, np_name, kernel_name):
        super().__init__(fn.name, np_name, front=True)
        self.fn, self.kernel_name = fn, kernel_name
        self.ps = None
        self.preloop = True

    def header(self):
        fn, a = self.fn, self.fn.args
        if fn.decorator_list or a.vararg or a.kwarg or a.kwonlyargs or a.posonlyargs or len(a.args) != 9:
            raise TranslationError("%s, %s line %d: signature other than (%s)" % (fn.name, SRC_NAME, fn.lineno, ", ".join(FRONT_PARAMS)))
        dflt = [" ".join(ast.unparse(d).split()).replace(self.np_name + ".", "np.") for d in a.defaults]
        if dflt != FRONT_DEFAULTS:
            raise TranslationError("%s, %s line %d: the default values %s differ from the documented %s"
                                   % (fn.name, SRC_NAME, fn.lineno, dflt, FRONT_DEFAULTS))
        names = [x.arg for x in a.args]
        for nm in names:
            check_name(nm, fn.name)
        if len(set(names)) != 9:
            raise TranslationError("%s: repeated parameter" % fn.name)
        P = [mangle(nm) for nm in names]
        self.P = dict(shape=P[0], accel=P[1], calib=P[2], crop=P[4], ma=P[7], tol=P[8])
        self.seed_name, self.dtype_name, self.shape_name = names[6], names[3], names[0]
        return {names[0]: Val(PAIR, items=[Val(Z, P[0] + "_0"), Val(Z, P[0] + "_1")]),     # img_shape: length-2 (docstring)
                names[1]: Val(F, P[1]),
                names[2]: Val(PAIR, items=[Val(Z, P[2] + "_0"), Val(Z, P[2] + "_1")]),
                names[3]: Val(OPAQUE, "dtype"),
                names[4]: Val(B, P[4]),
                names[5]: None,                                                           # return_density: unused by the code
                names[6]: Val(SEED, P[6]),
                names[7]: Val(Z, P[7]),
                names[8]: Val(F, P[8])}

    # ---- statements before / inside the search loop ------------------------------------------------
    def is_value_error(self, s):
        return isinstance(s, ast.Raise) and s.cause is None and isinstance(s.exc, ast.Call) and isinstance(s.exc.func, ast.Name) \
            and s.exc.func.id == "ValueError"

    def bind_array(self, env, lines, name, v, node):
        check_name(name, "%s, %s line %d" % (self.fname, SRC_NAME, node.lineno))
        nm = self.fresh(name)
        ty = {A2: "Z -> Z -> T", I2: "Z -> Z -> Z", M2: "Z -> Z -> Z", B2: "Z -> Z -> bool"}[v.ty]
        lines.append("let %s : %s := %s in   (* L%d: %s *)" % (nm, ty, fn2(v.term), node.lineno, san(ast.unparse(node))))
        env[name] = Val(v.ty, "(%s %s %s)" % (nm, YV, XV), shape=v.shape)

    def simple(self, s, env, lines):
        """a statement without control flow: lets"""
        if self.is_doc(s):
            return
        if isinstance(s, ast.AugAssign) and isinstance(s.target, ast.Name):
            cur = env.get(s.target.id)
            if cur is None:
                self.err(s, "augmented assignment to an unbound name")
            v = self.ev(s.value, env)
            if isinstance(s.op, ast.Mult) and cur.ty == M2 and v.ty == B2:
                return self.crop(s, env, lines, v, None)
            if isinstance(s.op, ast.Div) and cur.ty == A2:          # in place on a float array: the same values
                return self.bind_array(env, lines, s.target.id, self.binop("div", cur, v, s), s)
            self.err(s, "augmented assignment not understood")
        if not isinstance(s, ast.Assign) or len(s.targets) != 1:
            self.err(s, "statement form not understood (%s)" % type(s).__name__)
        t = s.targets[0]
        if isinstance(t, ast.Tuple) and all(isinstance(e, ast.Name) for e in t.elts) and len(t.elts) == 2:
            v = self.ev(s.value, env)
            if v.ty not in (PAIR, "mgrid"):
                self.err(s, "unpacking of something other than a length-2 tuple / np.mgrid")
            for e, item in zip(t.elts, v.items):
                check_name(e.id, "%s, %s line %d" % (self.fname, SRC_NAME, s.lineno))
                if e.id in env and env[e.id] is not None and env[e.id].ty in (PAIR, SEED, OPAQUE):
                    self.err(s, "a parameter is rebound")
                env[e.id] = item
            return
        if not isinstance(t, ast.Name):
            self.err(s, "assignment target not understood")
        if t.id in env and env[t.id] is not None and env[t.id].ty in (PAIR, SEED, OPAQUE):
            self.err(s, "a parameter is rebound")
        v = self.ev(s.value, env)
        if v.ty in (A2, I2, B2):
            return self.bind_array(env, lines, t.id, v, s)
        if v.ty == M2:
            check_name(t.id, "%s, %s line %d" % (self.fname, SRC_NAME, s.lineno))
            env[t.id] = v                                           # the kernel's result: already a `let`
            return
        if v.ty == Z and self.preloop:                              # ints before the loop are inlined (they become float bounds)
            env[t.id] = v
            return
        self.bind_scalar(env, lines, t.id, v, s)

    def crop(self, s, env, lines, v, guard):
        """mask *= <bool array>  (under `if <flag>:` the factor is 1 where the flag is not set)"""
        cur = env[s.target.id]
        if cur.shape != v.shape:
            self.err(s, "the mask and the crop region have different shapes")
        body = v.term if guard is None else "(if %s then %s else true)" % (guard, v.term)
        nm = self.fresh(s.target.id)
        lines.append("let %s := crop (fun %s %s : Z => %s) %s in   (* L%d: %s *)"
                     % (nm, YV, XV, body, fn2(cur.term), s.lineno, san(ast.unparse(s))))
        env[s.target.id] = Val(M2, "(%s %s %s)" % (nm, YV, XV), shape=cur.shape)

    def call_other(self, n, env, modf, builtin):
        f = n.func
        if builtin == self.kernel_name:
            if self.ps is None:
                self.err(n, "the kernel is called outside the search loop")
            if len(n.args) != 7:
                self.err(n, "the kernel is called with other than its seven positional arguments")
            a = [self.ev(x, env) for x in n.args]
            if [v.ty for v in a] != [Z, Z, Z, A2, A2, PAIR, SEED]:
                self.err(n, "the kernel's arguments have the kinds %s" % [v.ty for v in a])
            shape = (a[1].term, a[0].term)
            if a[3].shape != shape or a[4].shape != shape:
                self.err(n, "the radius arrays do not have the shape (ny, nx) of the kernel's arguments")
            if self.ps["evaluated"]:
                self.err(n, "more than one call of the kernel on a path of the loop body")
            self.ps["evaluated"] = True
            sv = env.get(self.slopevar)
            if sv is None or sv.ty != F:
                self.err(n, "the search variable `%s` is not a float when the kernel is called" % self.slopevar)
            self.ps["slope"] = sv.term                          # the slope this evaluation is recorded under
            st = self.fresh("st")
            # the k-th call consumes its own stream (np.random.seed(seed) restarts the generator): streams k
            self.round_lines.append("let '(%s, _, _) := gen_poisson_run %s %s %s %s %s %s %s fuel_k (streams k) in   (* L%d: %s(...) *)"
                                    % (st, a[0].term, a[1].term, a[2].term, fn2(a[3].term), fn2(a[4].term),
                                       a[5].items[0].term, a[5].items[1].term, n.lineno, self.kernel_name))
            return Val(M2, "((mask %s) %s %s)" % (st, YV, XV), shape=shape)
        self.err(n, "call not understood")

    # ---- one round of the search loop: a decision tree of gen_round values -----------------------------
    def leave(self, env, node):
        if not self.ps["evaluated"]:
            return "GLeave"
        return "GLeaveWith %s %s" % (self.ps["slope"], self.res_term(env, node))

    def res_term(self, env, node):
        vals = [env.get(nm) for nm in self.resvars]
        if any(v is None for v in vals) or [v.ty for v in vals] != [M2, F]:
            self.err(node, "what the rest of the function reads from the loop (%s) is not (mask, actual acceleration) here" % self.resvars)
        return "(%s, %s)" % (fn2(vals[0].term), vals[1].term)

    def run_round(self, stmts, env, lines):
        stmts = list(stmts)
        self.round_lines = lines
        while stmts:
            s = stmts.pop(0)
            if self.is_doc(s):
                continue
            if isinstance(s, ast.Break):
                return lines + [self.leave(env, s)]
            if isinstance(s, ast.If):
                only_break = len(s.body) == 1 and isinstance(s.body[0], ast.Break) and not s.orelse
                c = None
                if isinstance(s.test, ast.Name) and env.get(s.test.id) is not None and env[s.test.id].ty == B and not s.orelse \
                        and len(s.body) == 1 and isinstance(s.body[0], ast.AugAssign) and isinstance(s.body[0].op, ast.Mult) \
                        and isinstance(s.body[0].target, ast.Name) and env.get(s.body[0].target.id) is not None \
                        and env[s.body[0].target.id].ty == M2:
                    v = self.ev(s.body[0].value, env)
                    if v.ty != B2:
                        self.err(s, "the mask is multiplied by something other than a bool array")
                    self.crop(s.body[0], env, lines, v, env[s.test.id].term)
                    continue
                c = self.ev(s.test, env)
                if c.ty != B:
                    self.err(s.test, "condition is not a test of the model")
                cm = "   (* L%d: if %s *)" % (s.lineno, san(ast.unparse(s.test)))
                if only_break:
                    if self.ps["evaluated"]:
                        self.break_tests.append(s.test)
                    lines += ["if %s then %s%s" % (c.term, self.leave(env, s), cm), "else"]
                    continue
                ps0 = dict(self.ps)
                e1, e2 = dict(env), dict(env)
                a = self.run_round(list(s.body) + stmts, e1, [])
                self.ps = dict(ps0)
                b = self.run_round(list(s.orelse) + stmts, e2, [])
                self.ps = ps0
                return lines + ["if %s then (%s" % (c.term, cm)] + ind(a) + [") else ("] + ind(b) + [")"]
            if isinstance(s, (ast.While, ast.For, ast.Return, ast.Raise, ast.Continue)):
                self.err(s, "statement form not understood in the search loop (%s)" % type(s).__name__)
            self.simple(s, env, lines)
            self.round_lines = lines
        if not self.ps["evaluated"]:
            raise TranslationError("%s: a path through the search loop's body ends without an evaluation of the kernel" % self.fname)
        lo, hi = [self.as_float(env[nm], self.loop) for nm in self.bounds]
        return lines + ["GNext %s %s %s %s" % (lo, hi, self.ps["slope"], self.res_term(env, self.loop))]

    # ---- the whole function ------------------------------------------------------------------------------
    COMPLEMENT = {ast.GtE: ast.Lt, ast.Gt: ast.LtE, ast.Lt: ast.GtE, ast.LtE: ast.Gt}

    def translate(self):
        env = self.header()
        body = [s for s in self.fn.body if not self.is_doc(s)]
        for node in ast.walk(self.fn):
            if isinstance(node, (ast.Global, ast.Nonlocal, ast.FunctionDef, ast.AsyncFunctionDef, ast.Lambda, ast.ClassDef, ast.Try,
                                 ast.With, ast.Assert, ast.Delete, ast.ListComp, ast.IfExp, ast.For, ast.NamedExpr)) \
                    and node is not self.fn:
                self.err(node, "construct outside the accepted fragment (%s)" % type(node).__name__)
        w = [i for i, s in enumerate(body) if isinstance(s, ast.While)]
        if len(w) != 1:
            raise TranslationError("%s: exactly one top-level `while` expected, found %d" % (self.fname, len(w)))
        w = w[0]
        loop, post = body[w], body[w + 1:]
        self.loop = loop
        if loop.orelse:
            self.err(loop, "while ... else")
        # -- before the loop
        lines_pre, check, state_name = [], None, None
        for s in body[:w]:
            if isinstance(s, ast.If):
                if self.is_seed_test(s.test, env):
                    b = s.body[0] if len(s.body) == 1 else None
                    ok = not s.orelse and isinstance(b, ast.Assign) and len(b.targets) == 1 and isinstance(b.targets[0], ast.Name) \
                        and " ".join(ast.unparse(b.value).split()) == "%s.random.get_state()" % self.np_name and state_name is None
                    if not ok:
                        self.err(s, "`if seed is not None:` other than the pinned `<name> = np.random.get_state()`")
                    state_name = b.targets[0].id          # numpy's global generator: saved here, restored at the end; not in the model
                    continue
                if len(s.body) == 1 and self.is_value_error(s.body[0]) and not s.orelse and check is None and not lines_pre:
                    c = self.ev(s.test, env)
                    if c.ty != B:
                        self.err(s.test, "the parameter check is not a test")
                    check = "if %s then BadAccel   (* L%d: if %s: raise ValueError *)" % (c.term, s.lineno, san(ast.unparse(s.test)))
                    continue
                self.err(s, "`if` not understood before the search loop")
            if isinstance(s, (ast.Raise, ast.Return)):
                self.err(s, "statement form not understood before the search loop")
            self.simple(s, env, lines_pre)
        self.preloop = False
        # -- the loop: bounds, search variable, what it hands on
        t = loop.test
        if not (isinstance(t, ast.Compare) and len(t.ops) == 1 and isinstance(t.ops[0], ast.Lt) and isinstance(t.left, ast.Name)
                and isinstance(t.comparators[0], ast.Name)):
            self.err(t, "the guard of the search loop is not `<lower bound> < <upper bound>`")
        self.bounds = [t.left.id, t.comparators[0].id]
        stored = names_stored(loop.body)
        carried = [nm for nm in stored if env.get(nm) is not None]
        if sorted(carried) != sorted(self.bounds) or any(env[nm].ty not in (Z, LIT) for nm in self.bounds):
            self.err(loop, "the search loop updates %s; the model's loop carries the two bounds of its guard" % carried)
        init = [self.as_float(env[nm], loop) for nm in self.bounds]
        self.resvars = [nm for nm in stored if nm in names_loaded(post) and nm not in self.bounds]
        if len(self.resvars) != 2:
            self.err(loop, "the rest of the function reads %s from the loop; the model hands on (mask, actual acceleration)" % self.resvars)
        first = [s for s in loop.body if not self.is_doc(s)][0]
        if not (isinstance(first, ast.Assign) and len(first.targets) == 1 and isinstance(first.targets[0], ast.Name)
                and set(self.bounds) <= set(names_loaded([first.value]))):
            self.err(first, "the loop body does not start with the search variable computed from the two bounds")
        self.slopevar = first.targets[0].id
        used = names_loaded([loop] + post)
        grids = [nm for nm, v in env.items() if v is not None and v.ty in (A2, I2, B2) and nm in used]
        if len(grids) != 1 or env[grids[0]].ty != A2:
            self.err(loop, "the loop reads the arrays %s computed before it; the model one radius grid" % grids)
        rname, rshape = grids[0], env[grids[0]].shape
        gen_r = "Definition gen_r : Z -> Z -> T :=\n  " + "\n  ".join(lines_pre + [fn2(env[rname].term) + "."])
        env_loop = dict(env)
        for nm, v in env.items():
            if v is not None and v.ty in ARRAYS:
                env_loop[nm] = None
        rparam = mangle(rname)
        env_loop[rname] = Val(A2, "(%s %s %s)" % (rparam, YV, XV), shape=rshape)
        lo, hi = [mangle(nm) for nm in self.bounds]
        env_loop[self.bounds[0]], env_loop[self.bounds[1]] = Val(F, lo), Val(F, hi)
        guard = self.scalar_compare("lt", env_loop[self.bounds[0]], env_loop[self.bounds[1]], t)
        self.ps = {"evaluated": False, "slope": None}
        self.break_tests = []
        self.counter = {}
        for nm in (rparam, lo, hi, "k"):
            self.counter[nm] = 1
        rlines = self.run_round(loop.body, env_loop, [])
        self.ps = None
        # -- after the loop
        env_post = dict(env_loop)
        for nm in stored:
            env_post[nm] = None
        shape = (self.P["shape"] + "_0", self.P["shape"] + "_1")
        env_post[self.resvars[0]] = Val(M2, "((fst res) %s %s)" % (YV, XV), shape=None)
        env_post[self.resvars[1]] = Val(F, "(snd res)")
        final = "Returned res"
        post = list(post)
        if post and isinstance(post[0], ast.If):
            s = post.pop(0)
            tt = s.test
            if not (len(s.body) == 1 and self.is_value_error(s.body[0]) and not s.orelse):
                self.err(s, "`if` after the search loop other than `if <test>: raise ValueError(..)`")
            comp = None
            if isinstance(tt, ast.Compare) and len(tt.ops) == 1 and type(tt.ops[0]) in self.COMPLEMENT:
                for bt in self.break_tests:
                    if isinstance(bt, ast.Compare) and len(bt.ops) == 1 and type(bt.ops[0]) is self.COMPLEMENT[type(tt.ops[0])] \
                            and ast.dump(bt.left) == ast.dump(tt.left) and ast.dump(bt.comparators[0]) == ast.dump(tt.comparators[0]):
                        comp = bt
            if comp is None:
                # reading: on the model's (NaN-free) floats `a >= b` is the complement of `a < b`
                self.err(s, "the test that raises after the loop is not the complement (same operands, `>=` for `<`) of a test "
                            "that leaves the loop after an evaluation")
            c = self.ev(comp, env_post)
            final = "if %s then Returned res else Raised   (* L%d: if %s: raise ValueError *)" % (c.term, s.lineno, san(ast.unparse(tt)))
        env_post[self.resvars[0]] = Val(M2, "((fst res) %s %s)" % (YV, XV), shape=shape)
        returned = False
        for s in post:
            if self.is_doc(s):
                continue
            if isinstance(s, ast.If) and self.is_seed_test(s.test, env_post):
                b = s.body[0] if len(s.body) == 1 else None
                if s.orelse or state_name is None or not isinstance(b, ast.Expr) \
                        or " ".join(ast.unparse(b).split()) != "%s.random.set_state(%s)" % (self.np_name, state_name):
                    self.err(s, "`if seed is not None:` other than the pinned `np.random.set_state(<saved state>)`")
                continue
            if isinstance(s, ast.Assign) and len(s.targets) == 1 and isinstance(s.targets[0], ast.Name) \
                    and s.targets[0].id == self.resvars[0]:
                # mask.reshape(img_shape).astype(dtype): the same entries (shape (ny, nx) already; 0 / 1 are exact in every dtype)
                want = "%s.reshape(%s).astype(%s)" % (self.resvars[0], self.shape_name, self.dtype_name)
                if " ".join(ast.unparse(s.value).split()) != want:
                    self.err(s, "the mask is rebound to something other than `%s`" % want)
                continue
            if isinstance(s, ast.Return):
                if not (isinstance(s.value, ast.Name) and s.value.id == self.resvars[0]):
                    self.err(s, "the function returns something other than the mask")
                returned = True
                break
            self.err(s, "statement form not understood after the search loop")
        if not returned or post[-1] is not s:
            raise TranslationError("%s: the function does not end with `return <mask>`" % self.fname)
        P = self.P
        sig = "(%s : Z -> Z -> T) (k : nat) (%s %s : T)" % (rparam, lo, hi)
        out = [("gen_r", gen_r,
                "Lemma gen_r_ok : gen_r = rfield pabs pmax psqrt {s}_0 {s}_1 {c}_0 {c}_1.\nProof. reflexivity. Qed."),
               ("gen_search_round",
                "Definition gen_search_round %s : gen_round T ((Z -> Z -> Z) * T) :=   (* L%d-%d *)\n  %s."
                % (sig, loop.lineno, loop.end_lineno, "\n  ".join(rlines)),
                "Lemma gen_search_round_ok : forall k lo hi,\n  gen_search_round gen_r k lo hi =\n"
                "  gen_sloop_round peqb (mid_t (T:=T))\n"
                "    (eval_mask {s}_1 {s}_0 {ma} {c}_0 {c}_1 (radii_t pabs pmax psqrt {s}_0 {s}_1 {c}_0 {c}_1) streams\n"
                "               (ind_t pabs pmax psqrt {s}_0 {s}_1 {c}_0 {c}_1 {crop}) fuel_k)\n"
                "    (close_t {accel} {tol} pabs) (below_t {accel}) k lo hi.\n"
                "Proof.\n  intros. unfold gen_search_round, gen_sloop_round, eval_mask, close_t, below_t, mid_t, radii_t, radius_of, ind_t, accel_of.\n"
                "  rewrite gen_r_ok. cbn [fst snd]. tie_rw ltac:(rewrite gen_poisson_run_ok).\nQed.")]
        lines = []
        if check:
            lines += [check, "else"]
        lines += ["Searched",
                  "  match gen_search_iter (fun %s %s => %s) (gen_search_round gen_r) fuel O %s %s None [] with   (* L%d: while %s *)"
                  % (lo, hi, guard.term, init[0], init[1], loop.lineno, san(ast.unparse(t))),
                  "  | None => SearchFuel                 (* the fuel of the model ran out *)",
                  "  | Some (None, _, _) => Unbound       (* no evaluation: the names read after the loop are unbound *)",
                  "  | Some (Some res, _, _) => %s" % final,
                  "  end."]
        out.append(("gen_poisson", "Definition gen_poisson (fuel : nat) : fresult ((Z -> Z -> Z) * T) :=\n  " + "\n  ".join(lines),
                    "Lemma gen_poisson_ok : forall fuel,\n  gen_poisson fuel = poisson_front pabs pmax psqrt peqb {s}_0 {s}_1 {c}_0 {c}_1 {crop} {ma} {accel} {tol} "
                    "streams fuel_k fuel.\nProof.\n  intros. unfold gen_poisson, poisson_front, poisson, search, close_t.\n"
                    "  rewrite gen_sloop_iter. rewrite (gen_search_iter_ext _ _ _ gen_search_round_ok). reflexivity.\nQed."))
        names = dict(s=P["shape"], c=P["calib"], crop=P["crop"], ma=P["ma"], accel=P["accel"], tol=P["tol"])
        return [(n, d, l.format(**names)) for n, d, l in out]


# ---------------------------------------------------------------------------------------------
# module-level facts, rendering
# ---------------------------------------------------------------------------------------------
TACTICS = """(* case analysis on every test / stream pattern that occurs (innermost first), then computation *)
Ltac tie_case :=
  match goal with
  | |- context [match ?c with _ => _ end] =>
      lazymatch c with
      | context [match _ with _ => _ end] => fail
      | _ => destruct c
      end
  end.
Ltac tie_norm := cbv beta iota zeta delta [andb orb]; cbn [fst snd].
Ltac tie := tie_norm; repeat (tie_case; tie_norm); reflexivity.
Ltac tie_rw rw := tie_norm; repeat (try rw; tie_case; tie_norm); try rw; reflexivity.
"""

PRELUDE = """(* ---------- the three loop shapes as iterators of their body (fixed text, independent of the source) ---------- *)
(* `while COND: BODY` where BODY consumes draws (None: the stream does not offer what the body draws next) *)
Fixpoint gen_while {St D : Type} (cond : St -> bool) (body : St -> list D -> option (St * list D))
         (fuel : nat) (st : St) (s : list D) : St * list D * status :=
  if cond st then
    match fuel with
    | O => (st, s, OutOfFuel)
    | S f => match body st s with
             | Some (st', s') => gen_while cond body f st' s'
             | None => (st, s, BadStream)
             end
    end
  else (st, s, Finished).
Lemma gen_while_ext {St D : Type} (c1 c2 : St -> bool) (b1 b2 : St -> list D -> option (St * list D)) :
  (forall st, c1 st = c2 st) -> (forall st s, b1 st s = b2 st s) ->
  forall fuel st s, gen_while c1 b1 fuel st s = gen_while c2 b2 fuel st s.
Proof.
  intros Hc Hb fuel. induction fuel as [|f IH]; intros st s; simpl; rewrite Hc; destruct (c2 st); try reflexivity.
  rewrite Hb. destruct (b2 st s) as [[st' s']|]; [apply IH | reflexivity].
Qed.
(* the hand model's recursion [run] is this iterator of its own guard [running] and body [step] *)
Lemma gen_run_while {T : POps} (nx ny ma : Z) (RX RY : Z -> Z -> T) :
  forall fuel st s, run nx ny ma RX RY fuel st s = gen_while (running nx ny) (step nx ny ma RX RY) fuel st s.
Proof.
  intros fuel. induction fuel as [|f IH]; intros st s; simpl; destruct (running nx ny st); try reflexivity.
  destruct (step nx ny ma RX RY st s) as [[st' s']|]; [apply IH | reflexivity].
Qed.

(* `flag = False; k = 0; while not flag and k < N: BODY; k += 1`: at most N rounds, left as soon as a round sets the flag;
   a round maps the carried values q and the stream to (flag, q', rest of the stream) *)
Fixpoint gen_tries {Q D : Type} (body : Q -> list D -> option (bool * Q * list D)) (k : nat) (q : Q) (s : list D)
  : option (bool * Q * list D) :=
  match k with
  | O => Some (false, q, s)
  | S k' => match body q s with
            | Some (true, q', s') => Some (true, q', s')
            | Some (false, q', s') => gen_tries body k' q' s'
            | None => None
            end
  end.
Lemma gen_tries_ext {Q D : Type} (b1 b2 : Q -> list D -> option (bool * Q * list D)) :
  (forall q s, b1 q s = b2 q s) -> forall k q s, gen_tries b1 k q s = gen_tries b2 k q s.
Proof.
  intros H k. induction k as [|k IH]; intros q s; simpl; [reflexivity|].
  rewrite H. destruct (b2 q s) as [[[[] q'] s']|]; [reflexivity | apply IH | reflexivity].
Qed.
(* the hand model's recursion [attempts] is this iterator of its own single round [attempts 1] *)
Lemma gen_attempts_tries {T : POps} (nx ny : Z) (RX RY : Z -> Z -> T) (m : Z -> Z -> Z) (px py : Z) (rx ry : T) :
  forall k s q, attempts nx ny RX RY k m px py rx ry s q = gen_tries (fun q s => attempts nx ny RX RY 1 m px py rx ry s q) k q s.
Proof.
  intros k. induction k as [|k IH]; intros s q; [reflexivity|].
  cbn [gen_tries attempts]. destruct s as [|[n|u1] [|[n2|u2] s']]; try reflexivity.
  cbv zeta. destruct (accept nx ny RX RY m rx ry _ _); [reflexivity | apply IH].
Qed.

(* the slope search: one round either leaves with what was evaluated before, leaves with a new evaluation, or goes on with
   a new interval; the iterator threads the evaluation counter k and the list of evaluated slopes (model/Poisson.v: sloop) *)
Inductive gen_round (G Res : Type) : Type :=
| GLeave
| GLeaveWith (s : G) (r : Res)
| GNext (lo hi : G) (s : G) (r : Res).
Arguments GLeave {G Res}. Arguments GLeaveWith {G Res}. Arguments GNext {G Res}.
Fixpoint gen_search_iter {G Res : Type} (guard : G -> G -> bool) (body : nat -> G -> G -> gen_round G Res)
         (fuel : nat) (k : nat) (lo hi : G) (last : option Res) (tr : list G) : option (option Res * nat * list G) :=
  if guard lo hi then
    match fuel with
    | O => None
    | S f => match body k lo hi with
             | GLeave => Some (last, k, tr)
             | GLeaveWith s r => Some (Some r, S k, s :: tr)
             | GNext lo' hi' s r => gen_search_iter guard body f (S k) lo' hi' (Some r) (s :: tr)
             end
    end
  else Some (last, k, tr).
Lemma gen_search_iter_ext {G Res : Type} (guard : G -> G -> bool) (b1 b2 : nat -> G -> G -> gen_round G Res) :
  (forall k lo hi, b1 k lo hi = b2 k lo hi) ->
  forall fuel k lo hi last tr, gen_search_iter guard b1 fuel k lo hi last tr = gen_search_iter guard b2 fuel k lo hi last tr.
Proof.
  intros H fuel. induction fuel as [|f IH]; intros k lo hi last tr; simpl; destruct (guard lo hi); try reflexivity.
  rewrite H. destruct (b2 k lo hi); try reflexivity. apply IH.
Qed.
(* one round of the hand model's [sloop], and [sloop] as the iterator of it *)
Definition gen_sloop_round {G Res : Type} (geqb : G -> G -> bool) (mid : G -> G -> G) (eval : nat -> G -> Res)
           (close below : Res -> bool) (k : nat) (lo hi : G) : gen_round G Res :=
  let s := mid lo hi in
  if geqb s lo || geqb s hi then GLeave
  else let r := eval k s in
       if close r then GLeaveWith s r
       else if below r then GNext s hi s r else GNext lo s s r.
Lemma gen_sloop_iter {G Res : Type} (gltb geqb : G -> G -> bool) (mid : G -> G -> G) (eval : nat -> G -> Res)
      (close below : Res -> bool) :
  forall fuel k lo hi last tr,
    sloop G Res gltb geqb mid eval close below fuel k lo hi last tr =
    gen_search_iter gltb (gen_sloop_round geqb mid eval close below) fuel k lo hi last tr.
Proof.
  intros fuel. induction fuel as [|f IH]; intros k lo hi last tr; simpl; destruct (gltb lo hi); try reflexivity.
  unfold gen_sloop_round. cbv zeta. destruct (geqb (mid lo hi) lo || geqb (mid lo hi) hi); [reflexivity|].
  destruct (close (eval k (mid lo hi))); [reflexivity|]. destruct (below (eval k (mid lo hi))); apply IH.
Qed.
"""

HEADER = """(* Gen_poisson.v -- GENERATED by tools/translate_poisson.py from sigpy/mri/samp.py (sha256 %s).  Do not edit.
   `_poisson` (the numba kernel) and `poisson` as written in the source, over the operations of model/Poisson.v (POps, the stream
   of draws, pstate) and model/PoissonFront.v (pabs, pmax, psqrt, peqb), and their agreement with the hand models (each lemma:
   unfolding, case analysis on the tests and on the stream, reflexivity; the loops through the congruences of the prelude).
   Conventions: a call of np.random.randint / np.random.random is the next item of the stream (DInt n with lo <= n < hi / DFloat u),
   in evaluation order; np.random.seed is not an item.  The mask (floats 0.0 / 1.0) is a function y -> x -> Z, the int32 arrays are
   functions Z -> Z (np.empty: 0), a store `a[i] = v` is zupd, a float stored into them is truncated; float arrays are functions
   y -> x -> T, elementwise operations act on the entry [y__, x__].  int + float: pofZ; x ** 2: psq; x ** 0.5: ppowhalf;
   2 * np.pi: ptwopi; int(n/2 -+ c/2) on ints: Z.quot (n -+ c) 2; a > b: b < a; a >= b: b <= a; max / min on ints: Z.max / Z.min;
   np.clip(a, 1, None) and np.maximum: pmax; x.max(): amax2.  Every Python assignment in a loop body is a `let` (comment: source
   line).  See notes/translate_poisson.md. *)
From Coq Require Import ZArith List Bool.
From SV Require Import model.Poisson model.PoissonFront.
Import ListNotations.
Local Open Scope Z_scope.

"""


def module_facts(tree):
    """-> (local name of numpy, of numba); fails closed when a name the reading relies on is (re)bound in the module"""
    mods = {"numpy": [], "numba": []}
    for node in ast.walk(tree):
        if isinstance(node, ast.Import):
            for a in node.names:
                if a.name in mods:
                    mods[a.name].append(a.asname or a.name)
    for m, l in mods.items():
        if len(set(l)) != 1:
            raise TranslationError("%s no longer imports %s under exactly one name" % (SRC_NAME, m))
    np_name, nb_name = mods["numpy"][0], mods["numba"][0]
    funcs = {"poisson", "_poisson"}
    watched = PROTECTED | {np_name, nb_name} | funcs
    count = {f: 0 for f in funcs}
    for node in ast.walk(tree):
        if isinstance(node, (ast.FunctionDef, ast.AsyncFunctionDef, ast.ClassDef)) and node.name in watched:
            if isinstance(node, ast.FunctionDef) and node.name in funcs and any(node is s for s in tree.body):
                count[node.name] += 1
            else:
                raise TranslationError("%s line %d: `%s` is (re)defined" % (SRC_NAME, node.lineno, node.name))
        if isinstance(node, (ast.Global, ast.Nonlocal)) and set(node.names) & watched:
            raise TranslationError("%s line %d: global / nonlocal on a name the reading relies on" % (SRC_NAME, node.lineno))
        if isinstance(node, (ast.Import, ast.ImportFrom)):
            for a in node.names:
                if a.name == "*":
                    raise TranslationError("%s line %d: `import *`" % (SRC_NAME, node.lineno))
                bound = a.asname or a.name.split(".")[0]
                if bound in watched and not (isinstance(node, ast.Import) and a.name in mods):
                    raise TranslationError("%s line %d: import rebinds `%s`" % (SRC_NAME, node.lineno, bound))

    def stores(node, top):
        for ch in ast.iter_child_nodes(node):
            if isinstance(ch, ast.Name) and isinstance(ch.ctx, (ast.Store, ast.Del)) and ch.id in watched:
                raise TranslationError("%s line %d: the name `%s` is rebound" % (SRC_NAME, ch.lineno, ch.id))
            if isinstance(ch, ast.arg) and ch.arg in watched:
                raise TranslationError("%s line %d: a parameter shadows `%s`" % (SRC_NAME, ch.lineno, ch.arg))
            if isinstance(ch, ast.Attribute) and isinstance(ch.ctx, ast.Store) and isinstance(ch.value, ast.Name) \
                    and ch.value.id in watched:
                raise TranslationError("%s line %d: an attribute of `%s` is assigned" % (SRC_NAME, ch.lineno, ch.value.id))
            if isinstance(ch, (ast.FunctionDef, ast.AsyncFunctionDef, ast.Lambda)) and not (top and getattr(ch, "name", None) in funcs):
                # other functions: only their parameters / stores of the watched MODULE names matter (global is caught above)
                continue
            stores(ch, False)
    stores(tree, True)
    for f, k in count.items():
        if k != 1:
            raise TranslationError("%s defines %s %d times at module level" % (SRC_NAME, f, k))
    return np_name, nb_name


def render(items, indent="  "):
    out = []
    for name, d, l in items:
        out.append("\n".join(indent + x for x in d.split("\n")))
        out.append("\n".join(indent + x for x in l.split("\n")))
        out.append("")
    return out


def translate_source(src):
    """-> text of gen/Gen_poisson.v"""
    tree = ast.parse(src)
    np_name, nb_name = module_facts(tree)
    kfn = [s for s in tree.body if isinstance(s, ast.FunctionDef) and s.name == "_poisson"][0]
    ffn = [s for s in tree.body if isinstance(s, ast.FunctionDef) and s.name == "poisson"][0]
    K = Kernel(kfn, np_name, nb_name)
    kitems = K.translate()
    Fr = Front(ffn, np_name, "_poisson")
    fitems = Fr.translate()
    kp, fp = K.P, Fr.P
    out = [HEADER % hashlib.sha256(src.encode()).hexdigest(), TACTICS, PRELUDE]
    out += ["(* ===== _poisson  (%s line %d) ===== *)" % (SRC_NAME, kfn.lineno), "Section GenKernel.", "  Context {T : POps}.",
            "  Variables %s %s %s : Z.                 (* parameters nx, ny, max_attempts *)" % (kp[0], kp[1], kp[2]),
            "  Variables %s %s : Z -> Z -> T.          (* radius_x[y, x], radius_y[y, x] *)" % (kp[3], kp[4]),
            "  Variables %s_0 %s_1 : Z.                (* calib[-2], calib[-1] *)" % (kp[5], kp[5]), ""]
    out += render(kitems)
    out += ["End GenKernel.", "", "(* ===== poisson  (%s line %d) ===== *)" % (SRC_NAME, ffn.lineno), "Section GenFront.",
            "  Context {T : POps}.",
            "  Variable pabs : T -> T.                    (* abs *)",
            "  Variable pmax : T -> T -> T.               (* np.maximum; np.clip(a, lo, None) *)",
            "  Variable psqrt : T -> T.                   (* np.sqrt *)",
            "  Variable peqb : T -> T -> bool.            (* == on floats *)",
            "  Variables %s_0 %s_1 : Z.                   (* ny, nx = img_shape *)" % (fp["shape"], fp["shape"]),
            "  Variables %s_0 %s_1 : Z.                   (* calib *)" % (fp["calib"], fp["calib"]),
            "  Variable %s : bool." % fp["crop"],
            "  Variable %s : Z." % fp["ma"],
            "  Variables %s %s : T." % (fp["accel"], fp["tol"]),
            "  Variable streams : nat -> list (draw T).   (* the draws consumed by the k-th call of the kernel *)",
            "  Variable fuel_k : nat.                     (* fuel of each run of the kernel *)", ""]
    out += render(fitems)
    out += ["End GenFront."]
    return "\n".join(out) + "\n"


def translate_poisson(repo, path=None):
    return translate_source(open(path or os.path.join(repo, SRC_REL)).read())


def failing_lemma(gen_text, log):
    """name of the lemma / definition a coqc error message points into"""
    m = re.search(r'line (\d+), characters', log)
    if not m:
        return None
    lines = gen_text.split("\n")
    for i in range(min(int(m.group(1)), len(lines)) - 1, -1, -1):
        mm = re.match(r"\s*(?:Lemma|Definition|Fixpoint)\s+([A-Za-z0-9_']+)", lines[i])
        if mm:
            return mm.group(1)
    return None


def tie(ctx):
    """The two obligations props/C18.py adds: regenerate gen/Gen_poisson.v from the tree under test, then compile it (the
    `_ok` lemmas ARE the tie).  Returns None when both hold, else {"theorem": <translator or lemma>, "log": ...} for the
    no-failing-input report."""
    from tools import translate_all
    from vlib import core
    tr_err = translate_all.run(strict=False, only=["poisson"])
    ctx.source_hash(SRC_REL)
    ctx.obligation("translate:%s (%s)" % (SRC_REL, COVERED), not tr_err)
    name = "tie:generated == hand model (gen/Gen_poisson.v: %s)" % ", ".join(LEMMAS)
    if tr_err:
        ctx.notes.append("translator failed closed: %s" % tr_err)
        ctx.obligation(name, False)
        return {"theorem": "translate:" + SRC_REL, "log": str(tr_err)}
    ctx.checker_cmds.append("cd %s && make gen/Gen_poisson.vo" % core.COQ)
    ok, log = core.coq_make(["gen/Gen_poisson.vo"], timeout=600)
    ctx.obligation(name, ok)
    if ok:
        return None
    lem = None
    m = re.search(r'File "[^"]*?Gen_poisson\.v", line (\d+)', log)
    if m:
        try:
            lem = failing_lemma(open(os.path.join(core.COQ, "gen", "Gen_poisson.v")).read(), "line %s, characters" % m.group(1))
        except OSError:
            lem = None
    which = "%s (gen/Gen_poisson.v)" % (lem or "?")
    ctx.notes.append("generated _poisson / poisson no longer equal the hand model: %s: %s" % (which, log[-1200:]))
    return {"theorem": "tie:" + which, "log": log[-2500:]}


if __name__ == "__main__":
    args = [a for a in sys.argv[1:] if not a.startswith("--")]
    sys.stdout.write(translate_poisson(args[0] if args else "/repo"))
