#!/bin/bash
# usage: tools/soak.sh "<IDs>" <first seed> <last seed> [tier]  — runs each check on each seed (evidence redirected), prints only failures + a summary
cd "$(dirname "$0")/.."
IDS=$1; A=$2; B=$3; TIER=${4:-quick}
export VERIF_EVIDENCE_DIR=$PWD/build/evidence_soak; mkdir -p $VERIF_EVIDENCE_DIR build/soak
fail=0; runs=0
for s in $(seq $A $B); do
  for p in $IDS; do
    out=$(VERIF_SEED=$s ./check $p --tier $TIER 2>&1); rc=$?
    runs=$((runs+1))
    if [ $rc -ne 0 ] || echo "$out" | grep -q "^VIOLATION"; then
      fail=$((fail+1)); echo "FAIL $p seed=$s rc=$rc"; echo "$out" | grep -E "^VIOLATION|^\[" ; mkdir -p build/soak/${p}_$s; cp build/replay/${p}_*.json build/soak/${p}_$s/ 2>/dev/null
    fi
  done
done
echo "soak: $runs runs, $fail failures"
