#!/usr/bin/env python3
"""Self-test of tools/translate_interpw.py: small textual mutations of a COPY of sigpy/interp.py.

For every mutation the copy is translated; expected outcome: the translation FAILS CLOSED (TranslationError naming the
line) or the first `_ok` lemma that no longer compiles is named.  The unmodified source and the meaning-preserving edits
that keep the AST shape must pass; meaning-preserving edits that change the generated TERM are listed with the
expectation "breaks".  Mutations of the six numba loop kernels / _spline_kernel are the business of translate_loops.py
(gen/Gen_interp.v IS their model) -- a few are included with the expectation "loops" to show that this translator
does not see them.  Scratch copies: /verif/build/trinterpw_selftest/<name>/{sigpy/interp.py,Gen_interpw.v}.

    /venv/bin/python tools/test_translate_interpw.py [repo] [--no-seeded]        exit 0 = everything as expected
"""
import concurrent.futures
import os
import shutil
import subprocess
import sys
import time

HERE = os.path.dirname(os.path.abspath(__file__))
sys.path.insert(0, os.path.dirname(HERE))
from tools import translate_interpw as T      # noqa: E402
from vlib import core                        # noqa: E402

SCRATCH = os.path.join(core.BUILD, "trinterpw_selftest")

CALL_I = "_interpolate[kernel][ndim - 1](output, input, coord, width, param)"
CALL_G = "_gridding[kernel][ndim - 1](output, input, coord, width, param)"
PBLOCK = "    if np.isscalar(param):\n        param = xp.array([param] * ndim, coord.dtype)\n    else:\n        param = xp.array(param, coord.dtype)\n"
WBLOCK = "    if np.isscalar(width):\n        width = xp.array([width] * ndim, coord.dtype)\n    else:\n        width = xp.array(width, coord.dtype)\n"

# (name, old text, new text, which occurrence (0-based; -1 = all), expectation)
#   "caught": a defect -- must fail closed or break a lemma;  "pass": meaning-preserving, must still be accepted;
#   "breaks": meaning-preserving but changes the generated term;  "loops": outside this translator (translate_loops.py)
MUTATIONS = [
    # ---- interpolate (occurrence 0) / gridding (occurrence 1) wrappers ------------------------------------------------
    ("i_ndim_first_axis", "ndim = coord.shape[-1]", "ndim = coord.shape[0]", 0, "caught"),
    ("i_ndim_from_input", "ndim = coord.shape[-1]", "ndim = input.shape[-1]", 0, "caught"),
    ("i_batch_shape_leading", "batch_shape = input.shape[:-ndim]", "batch_shape = input.shape[:ndim]", 0, "caught"),
    ("i_batch_shape_off_by_one", "batch_shape = input.shape[:-ndim]", "batch_shape = input.shape[:-ndim + 1]", 0, "caught"),
    ("i_batch_size_of_pts", "batch_size = util.prod(batch_shape)", "batch_size = util.prod(pts_shape)", 0, "caught"),
    ("i_pts_shape_keeps_last", "pts_shape = coord.shape[:-1]", "pts_shape = coord.shape[:-2]", 0, "caught"),
    ("i_npts_of_batch", "npts = util.prod(pts_shape)", "npts = util.prod(batch_shape)", 0, "caught"),
    ("i_input_reshape_wrong_tail", "input = input.reshape([batch_size] + list(input.shape[-ndim:]))",
     "input = input.reshape([batch_size] + list(input.shape[:-ndim]))", 0, "caught"),
    ("i_input_reshape_batch_last", "input = input.reshape([batch_size] + list(input.shape[-ndim:]))",
     "input = input.reshape(list(input.shape[-ndim:]) + [batch_size])", 0, "caught"),
    ("i_input_not_reshaped", "    input = input.reshape([batch_size] + list(input.shape[-ndim:]))\n", "", 0, "caught"),
    ("i_coord_reshape_transposed", "coord = coord.reshape([npts, ndim])", "coord = coord.reshape([ndim, npts])", 0, "caught"),
    ("i_coord_not_reshaped", "    coord = coord.reshape([npts, ndim])\n", "", 0, "caught"),
    ("i_output_transposed", "output = xp.zeros([batch_size, npts], dtype=input.dtype)", "output = xp.zeros([npts, batch_size], dtype=input.dtype)", 0, "caught"),
    ("i_output_default_dtype", "output = xp.zeros([batch_size, npts], dtype=input.dtype)", "output = xp.zeros([batch_size, npts])", 0, "caught"),
    ("i_output_coord_dtype", "output = xp.zeros([batch_size, npts], dtype=input.dtype)", "output = xp.zeros([batch_size, npts], dtype=coord.dtype)", 0, "caught"),
    ("i_param_repeat_off_by_one", "param = xp.array([param] * ndim, coord.dtype)", "param = xp.array([param] * (ndim - 1), coord.dtype)", 0, "caught"),
    ("i_param_repeat_once", "param = xp.array([param] * ndim, coord.dtype)", "param = xp.array([param], coord.dtype)", 0, "caught"),
    ("i_param_from_width", "param = xp.array([param] * ndim, coord.dtype)", "param = xp.array([width] * ndim, coord.dtype)", 0, "caught"),
    ("i_param_no_dtype", "param = xp.array(param, coord.dtype)", "param = xp.array(param)", 0, "caught"),
    ("i_param_input_dtype", "param = xp.array(param, coord.dtype)", "param = xp.array(param, input.dtype)", 0, "caught"),
    ("i_param_test_on_width", "if np.isscalar(param):", "if np.isscalar(width):", 0, "caught"),
    ("i_width_branches_swapped", WBLOCK, "    if np.isscalar(width):\n        width = xp.array(width, coord.dtype)\n    else:\n        width = xp.array([width] * ndim, coord.dtype)\n", 0, "caught"),
    ("i_width_list_reversed", "width = xp.array(width, coord.dtype)", "width = xp.array(width[::-1], coord.dtype)", 0, "caught"),
    ("i_width_scalar_only", WBLOCK, "    width = xp.array([width] * ndim, coord.dtype)\n", 0, "caught"),
    ("i_dispatch_index_ndim", CALL_I, "_interpolate[kernel][ndim](output, input, coord, width, param)", 0, "caught"),
    ("i_dispatch_index_minus_2", CALL_I, "_interpolate[kernel][ndim - 2](output, input, coord, width, param)", 0, "caught"),
    ("i_dispatch_gridding_table", CALL_I, "_gridding[kernel][ndim - 1](output, input, coord, width, param)", 0, "caught"),
    ("i_dispatch_fixed_kernel", CALL_I, "_interpolate[\"spline\"][ndim - 1](output, input, coord, width, param)", 0, "caught"),
    ("i_call_width_param_swapped", CALL_I, "_interpolate[kernel][ndim - 1](output, input, coord, param, width)", 0, "caught"),
    ("i_call_input_output_swapped", CALL_I, "_interpolate[kernel][ndim - 1](input, output, coord, width, param)", 0, "caught"),
    ("i_call_coord_as_width", CALL_I, "_interpolate[kernel][ndim - 1](output, input, coord, coord, param)", 0, "caught"),
    ("i_cpu_test_inverted", "    if xp == np:\n        _interpolate", "    if xp != np:\n        _interpolate", 0, "caught"),
    ("i_return_not_reshaped", "return output.reshape(batch_shape + pts_shape)", "return output", 0, "caught"),
    ("i_return_pts_first", "return output.reshape(batch_shape + pts_shape)", "return output.reshape(pts_shape + batch_shape)", 0, "caught"),
    ("i_return_input", "return output.reshape(batch_shape + pts_shape)", "return input.reshape(batch_shape + pts_shape)", 0, "caught"),
    ("i_default_width_4", "def interpolate(input, coord, kernel=\"spline\", width=2, param=1):", "def interpolate(input, coord, kernel=\"spline\", width=4, param=1):", 0, "caught"),
    ("i_default_kernel_kb", "def interpolate(input, coord, kernel=\"spline\", width=2, param=1):", "def interpolate(input, coord, kernel=\"kaiser_bessel\", width=2, param=1):", 0, "caught"),
    ("i_params_reordered", "def interpolate(input, coord, kernel=\"spline\", width=2, param=1):", "def interpolate(input, coord, kernel=\"spline\", param=1, width=2):", 0, "caught"),
    ("g_batch_shape_from_input", "batch_shape = shape[:-ndim]", "batch_shape = input.shape[:-ndim]", 0, "caught"),
    ("g_input_reshape_transposed", "input = input.reshape([batch_size, npts])", "input = input.reshape([npts, batch_size])", 0, "caught"),
    ("g_output_grid_from_leading", "output = xp.zeros([batch_size] + list(shape[-ndim:]), dtype=input.dtype)",
     "output = xp.zeros([batch_size] + list(shape[:-ndim]), dtype=input.dtype)", 0, "caught"),
    ("g_output_no_batch", "output = xp.zeros([batch_size] + list(shape[-ndim:]), dtype=input.dtype)",
     "output = xp.zeros(list(shape[-ndim:]), dtype=input.dtype)", 0, "caught"),
    ("g_param_repeat_off_by_one", "param = xp.array([param] * ndim, coord.dtype)", "param = xp.array([param] * (ndim + 1), coord.dtype)", 1, "caught"),
    ("g_dispatch_interpolate_table", "        " + CALL_G, "        " + CALL_I, 0, "caught"),
    ("g_call_width_param_swapped", CALL_G, "_gridding[kernel][ndim - 1](output, input, coord, param, width)", 0, "caught"),
    ("g_return_not_reshaped", "return output.reshape(shape)", "return output", 0, "caught"),
    ("g_return_flat", "return output.reshape(shape)", "return output.reshape([batch_size] + list(shape[-ndim:]))", 0, "caught"),
    ("g_default_param_0", "def gridding(input, coord, shape, kernel=\"spline\", width=2, param=1):", "def gridding(input, coord, shape, kernel=\"spline\", width=2, param=0):", 0, "caught"),
    # ---- dispatch tables ------------------------------------------------------------------------------------------------
    ("t_kernels_dropped_kb", "KERNELS = [\"spline\", \"kaiser_bessel\"]", "KERNELS = [\"spline\"]", 0, "caught"),
    ("t_getter_kernels_crossed", "    if kernel == \"spline\":\n        kernel = _spline_kernel\n    elif kernel == \"kaiser_bessel\":\n        kernel = _kaiser_bessel_kernel\n",
     "    if kernel == \"spline\":\n        kernel = _kaiser_bessel_kernel\n    elif kernel == \"kaiser_bessel\":\n        kernel = _spline_kernel\n", 1, "caught"),
    ("t_getter_kb_is_spline", "    elif kernel == \"kaiser_bessel\":\n        kernel = _kaiser_bessel_kernel\n", "    elif kernel == \"kaiser_bessel\":\n        kernel = _spline_kernel\n", 0, "caught"),
    ("t_members_reordered", "return _interpolate1, _interpolate2, _interpolate3", "return _interpolate1, _interpolate3, _interpolate2", 0, "caught"),
    ("t_members_short", "return _gridding1, _gridding2, _gridding3", "return _gridding1, _gridding2", 0, "caught"),
    ("t_fill_crossed", "    _interpolate[kernel] = _get_interpolate(kernel)\n    _gridding[kernel] = _get_gridding(kernel)\n",
     "    _interpolate[kernel] = _get_gridding(kernel)\n    _gridding[kernel] = _get_interpolate(kernel)\n", 0, "caught"),
    ("t_table_overwritten", "if config.cupy_enabled:  # pragma: no cover\n    import cupy as cp\n",
     "_interpolate[\"spline\"] = _gridding[\"spline\"]\n\nif config.cupy_enabled:  # pragma: no cover\n    import cupy as cp\n", 0, "caught"),
    # ---- _kaiser_bessel_kernel ------------------------------------------------------------------------------------------
    ("k_guard_ge", "def _kaiser_bessel_kernel(x, beta):\n    if abs(x) > 1:", "def _kaiser_bessel_kernel(x, beta):\n    if abs(x) >= 1:", 0, "caught"),
    ("k_guard_dropped_abs", "def _kaiser_bessel_kernel(x, beta):\n    if abs(x) > 1:", "def _kaiser_bessel_kernel(x, beta):\n    if x > 1:", 0, "caught"),
    ("k_guard_returns_1", "def _kaiser_bessel_kernel(x, beta):\n    if abs(x) > 1:\n        return 0", "def _kaiser_bessel_kernel(x, beta):\n    if abs(x) > 1:\n        return 1", 0, "caught"),
    ("k_arg_no_sqrt", "x = beta * (1 - x**2) ** 0.5", "x = beta * (1 - x**2)", 0, "caught"),
    ("k_arg_plus", "x = beta * (1 - x**2) ** 0.5", "x = beta * (1 + x**2) ** 0.5", 0, "caught"),
    ("k_arg_not_squared", "x = beta * (1 - x**2) ** 0.5", "x = beta * (1 - x) ** 0.5", 0, "caught"),
    ("k_t_wrong_constant", "t = x / 3.75", "t = x / 3.57", 0, "caught"),
    ("k_switch_wrong_constant", "if x < 3.75:", "if x < 3.5:", 0, "caught"),
    ("k_switch_reversed", "if x < 3.75:", "if x > 3.75:", 0, "caught"),
    ("k_small_coefficient_digit", "+ 3.0899424 * t**4", "+ 3.0899442 * t**4", 0, "caught"),
    ("k_small_wrong_power", "+ 1.2067492 * t**6", "+ 1.2067492 * t**5", 0, "caught"),
    ("k_small_dropped_term", "            + 0.0045813 * t**12\n", "", 0, "caught"),
    ("k_large_sign", "- 0.00157565 * t**-3", "+ 0.00157565 * t**-3", 0, "caught"),
    ("k_large_positive_power", "+ 0.00916281 * t**-4", "+ 0.00916281 * t**4", 0, "caught"),
    ("k_large_no_exp", "            * np.exp(x)\n", "", 0, "caught"),
    ("k_large_sqrt_not_inverted", "x**-0.5", "x**0.5", 0, "caught"),
    ("k_large_leading_constant", "0.39894228", "0.39894282", 0, "caught"),
    # ---- meaning-preserving edits that keep the AST shape: the tie must survive them -----------------------------------
    ("neutral_rename_local", "batch_size", "nbatch", -1, "pass"),
    ("neutral_comment", "    xp = backend.get_array_module(input)\n", "    # which array module\n    xp = backend.get_array_module(input)  # numpy or cupy\n", -1, "pass"),
    ("neutral_unused_local", "    pts_shape = coord.shape[:-1]\n", "    pts_shape = coord.shape[:-1]\n    grid_rank = ndim + 1\n", 0, "pass"),
    ("neutral_cuda_branch_edit", "        _interpolate_cuda[kernel][ndim - 1](\n            input, coord, width, param, output, size=npts\n        )",
     "        _interpolate_cuda[kernel][ndim - 1](\n            input, coord, width, param, output, size=npts + 0\n        )", 0, "pass"),
    ("neutral_dtype_keyword", "param = xp.array(param, coord.dtype)", "param = xp.array(param, dtype=coord.dtype)", 0, "pass"),
    ("neutral_width_block_first", PBLOCK + "\n" + WBLOCK, WBLOCK + "\n" + PBLOCK, 0, "pass"),
    ("neutral_kb_lt_written_gt", "if x < 3.75:", "if 3.75 > x:", 0, "pass"),
    ("neutral_kb_rename_local", "    t = x / 3.75\n    if x < 3.75:", "    tt = x / 3.75\n    if x < 3.75:", 0, "caught"),   # t is then unbound below: a defect
    # ---- meaning-preserving edits that change the TERM: reported (accepted) -----------------------------------------
    ("neutral_xp_is_np", "xp = backend.get_array_module(input)", "xp = np", 0, "pass"),
    ("refactor_repeat_commuted", "param = xp.array([param] * ndim, coord.dtype)", "param = xp.array(ndim * [param], coord.dtype)", 0, "breaks"),
    ("refactor_kb_commuted_product", "x = beta * (1 - x**2) ** 0.5", "x = (1 - x**2) ** 0.5 * beta", 0, "breaks"),
    ("neutral_kb_x_times_x", "x = beta * (1 - x**2) ** 0.5", "x = beta * (1 - x * x) ** 0.5", 0, "pass"),
    # ---- the loop kernels / _spline_kernel: not this translator's (gen/Gen_interp.v is regenerated by translate_loops) --
    ("loops_window_floor_div", "x0 = np.ceil(kx - width[-1] / 2)", "x0 = np.ceil(kx - width[-1] // 2)", 0, "loops"),
    ("loops_spline_guard_ge", "def _spline_kernel(x, order):\n    if abs(x) > 1:", "def _spline_kernel(x, order):\n    if abs(x) >= 1:", 0, "loops"),
]


def nth_replace(text, old, new, k):
    if k == -1:
        assert old in text, old
        return text.replace(old, new)
    idx = -1
    for _ in range(k + 1):
        idx = text.find(old, idx + 1)
        if idx < 0:
            raise AssertionError("pattern not found (occurrence %d): %r" % (k, old))
    return text[:idx] + new + text[idx + len(old):]


def compile_gen(path):
    try:
        p = subprocess.run(["coqc", "-w", "-all", "-Q", core.COQ, "SV", path], cwd=os.path.dirname(path),
                           stdout=subprocess.PIPE, stderr=subprocess.STDOUT, text=True, timeout=600)
    except subprocess.TimeoutExpired:
        return 124, "timeout"
    return p.returncode, p.stdout


def one(name, src):
    d = os.path.join(SCRATCH, name.replace(":", "_"))
    shutil.rmtree(d, ignore_errors=True)
    os.makedirs(os.path.join(d, "sigpy"))
    with open(os.path.join(d, T.SRC_REL), "w") as f:
        f.write(src)
    t0 = time.time()
    try:
        text = T.translate_interpw(d)
    except T.TranslationError as e:
        return ("fails closed", str(e), time.time() - t0)
    except SyntaxError as e:
        return ("fails closed", "SyntaxError: %s" % e, time.time() - t0)
    path = os.path.join(d, T.GEN)
    with open(path, "w") as f:
        f.write(text)
    rc, out = compile_gen(path)
    if rc == 0:
        return ("ok", "", time.time() - t0)
    return ("lemma fails", str(T.failing_lemma(text, out)) if rc != 124 else "coqc timeout", time.time() - t0)


def seeded_patches(src0):
    """the seeded changes of /verif/seeded for C07 that touch interp.py (informational)"""
    out = []
    root = os.path.join(core.VERIF, "seeded")
    for name in sorted(os.listdir(root)) if os.path.isdir(root) else []:
        patch = os.path.join(root, name, "patch.diff")
        if not name.startswith("C07_") or not os.path.exists(patch):
            continue
        files = [l.split()[1][2:] for l in open(patch) if l.startswith("+++ ")]
        if T.SRC_REL not in files:
            continue
        d = os.path.join(SCRATCH, "seeded_src_" + name)
        shutil.rmtree(d, ignore_errors=True)
        os.makedirs(os.path.join(d, "sigpy"))
        open(os.path.join(d, T.SRC_REL), "w").write(src0)
        p = subprocess.run(["patch", "-p1", "-s", "--no-backup-if-mismatch", "-d", d, "-i", patch],
                           stdout=subprocess.PIPE, stderr=subprocess.STDOUT, text=True)
        if p.returncode:
            out.append(("seeded:" + name, None, "does not apply"))
            continue
        out.append(("seeded:" + name, open(os.path.join(d, T.SRC_REL)).read(), "info"))
        shutil.rmtree(d, ignore_errors=True)
    return out


def main():
    pos = [a for a in sys.argv[1:] if not a.startswith("--")]
    repo = pos[0] if pos else core.REPO
    t0 = time.time()
    ok, log = core.coq_make(["model/Interp.vo", "model/InterpW.vo"], timeout=900)
    if not ok:
        print("cannot build the hand model:\n" + log[-1500:])
        return 2
    src0 = open(os.path.join(repo, T.SRC_REL)).read()
    jobs = [("UNMODIFIED", src0, "pass")]
    for name, old, new, k, expect in MUTATIONS:
        jobs.append((name, nth_replace(src0, old, new, k), expect))
    if "--no-seeded" not in sys.argv:
        jobs += [j for j in seeded_patches(src0) if j[1] is not None]
    with concurrent.futures.ThreadPoolExecutor(max_workers=8) as ex:
        results = list(ex.map(lambda j: one(j[0], j[1]), jobs))
    bad = 0
    tally = {}
    print("%-30s %-8s %-9s %5s  %s" % ("mutation", "expected", "verdict", "sec", "how"))
    for (name, _, expect), (how, detail, dt) in zip(jobs, results):
        verdict = "pass" if how == "ok" else "caught"
        good = expect == "info" or verdict == {"caught": "caught", "breaks": "caught", "pass": "pass", "loops": "pass"}[expect]
        bad += 0 if good else 1
        tally[(expect, how)] = tally.get((expect, how), 0) + 1
        print("%-30s %-8s %-9s %5.1f  %s%s" % (name, expect, verdict + ("" if good else " (!!)"), dt, how, (": " + detail[:210]) if detail else ""))
    print("; ".join("%s/%s: %d" % (e, h, n) for (e, h), n in sorted(tally.items())))
    print("%d cases, %d unexpected, %.1fs" % (len(jobs), bad, time.time() - t0))
    return 1 if bad else 0


if __name__ == "__main__":
    sys.exit(main())
