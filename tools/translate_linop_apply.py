#!/usr/bin/env python3
"""Fail-closed translator: what the `_apply` methods of sigpy/linop.py compute (Python `ast`) -> Gallina.

From the SOURCE TEXT of linop.py it regenerates, on every run, coq/gen/Gen_linop_apply.v:

  part "den" (Section Gen over R : Ops, arr, scal, orc; D := den arr scal orc noforce)
    gen_Linop_apply / gen_Linop_mul_array / gen_Linop_call      Linop.apply, __mul__ (ndarray branch), __call__
    gen_apply_<Class>  for Identity, Reshape, Transpose, Multiply, MatMul, RightMatMul, Resize, Flip, Downsample, Upsample,
                       Circshift, Sum, Tile, ArrayToBlocks, BlocksToArray, Slice, Embed, Conj, Add, Compose, Hstack, Vstack, Diag
    gen_combine_compose_linops, gen_new_Compose, gen_Linop_mul_linop / mul_scalar / rmul_scalar / add / neg / sub
  part "std" (Section GenStd over R, C, E : std_env R C, arr, scal; D := den arr scal (orc_std E arr) noforce)
    gen_apply_<Class>  for FFT, IFFT, Interpolate, Gridding, NUFFT, NUFFTAdjoint, ConvolveData, ConvolveDataAdjoint,
                       ConvolveFilter, ConvolveFilterAdjoint

each followed by `Lemma gen_..._ok : forall args x, gen_apply_<Class> args x = D (<Class> args) x` (overloads: = op_mul, ...),
proved by `reflexivity`, else case analysis on the option / bool / mult_t arguments and `reflexivity`.

Reading (details: notes/translate_linop_apply.md): a model term `<Class> args` stands for the object `Class(args)`; `self.a` in
`_apply` is what `__init__` assigned (evaluated symbolically; what cannot be evaluated is poisoned and fails closed when read);
the input of `_apply` has shape self.ishape (Linop.apply checks it); tests on attributes (`self.axis is None`, `self.adjoint`,
`np.isscalar(self.mult)`) fork the whole method into a decision tree; numpy / util / block / fourier / interp / conv calls become
the operations of the hand models (fixed PRELUDE text + the models' own functions); the three loop shapes of the combinators
(accumulate, chain, enumerate with split points) become local `fix`es of the shape the hand model uses.
Anything else raises TranslationError naming class, line and source text (FAIL CLOSED).

Entry points: translate_linop_apply(repo) -> text; tie(ctx) for props/linop_common.py; tools/test_translate_linop_apply.py.
"""
import ast
import hashlib
import os
import re
import sys


class TranslationError(Exception):
    pass


class Undecided(Exception):
    """an attribute test that the current path has not decided yet"""

    def __init__(self, key):
        Exception.__init__(self, str(key))
        self.key = key


SRC_REL = "sigpy/linop.py"
MARK_STD = "(* ===== part std ===== *)"

# ---------------------------------------------------------------------------------------------------------------
# the classes in scope: model constructor arguments = __init__ parameters, in order: (python name, model name, kind)
# kinds: ZL list Z | OL option (list Z) | OZ option Z | B bool | LINOP | LINOPS | AREF captured data array | CREF captured
# coordinate array | MULT mult_t | IDX list sl | KCODE / WCODE / PCODE integer parameter codes | MODE (bool: mode == "full")
# ---------------------------------------------------------------------------------------------------------------
COQTYPE = {"ZL": "list Z", "OL": "option (list Z)", "OZ": "option Z", "B": "bool", "LINOP": "linop", "LINOPS": "list linop",
           "AREF": "aref", "CREF": "aref", "MULT": "mult_t", "IDX": "list sl", "KCODE": "Z", "WCODE": "Z", "PCODE": "Z",
           "MODE": "bool"}
CONV = [("filt", "filt", "AREF"), ("mode", "mode", "MODE"), ("strides", "strides", "OL"), ("multi_channel", "multi_channel", "B")]
CONVD = [("data", "data", "AREF")] + CONV[1:]
CLASSES = {
    "Identity": [("shape", "shape", "ZL")],
    "Reshape": [("oshape", "oshape", "ZL"), ("ishape", "ishape", "ZL")],
    "Transpose": [("ishape", "ishape", "ZL"), ("axes", "axes", "OL")],
    "Multiply": [("ishape", "ishape", "ZL"), ("mult", "mult", "MULT"), ("conj", "cj", "B")],
    "MatMul": [("ishape", "ishape", "ZL"), ("mat", "mat", "AREF"), ("adjoint", "adjoint", "B")],
    "RightMatMul": [("ishape", "ishape", "ZL"), ("mat", "mat", "AREF"), ("adjoint", "adjoint", "B")],
    "Resize": [("oshape", "oshape", "ZL"), ("ishape", "ishape", "ZL"), ("ishift", "ishift", "OL"), ("oshift", "oshift", "OL")],
    "Flip": [("shape", "shape", "ZL"), ("axes", "axes", "OL")],
    "Downsample": [("ishape", "ishape", "ZL"), ("factors", "factors", "ZL"), ("shift", "shift", "ZL")],
    "Upsample": [("oshape", "oshape", "ZL"), ("factors", "factors", "ZL"), ("shift", "shift", "ZL")],
    "Circshift": [("shape", "shape", "ZL"), ("shift", "shift", "ZL"), ("axes", "axes", "OL")],
    "Sum": [("ishape", "ishape", "ZL"), ("axes", "axes", "ZL")],
    "Tile": [("oshape", "oshape", "ZL"), ("axes", "axes", "ZL")],
    "ArrayToBlocks": [("ishape", "ishape", "ZL"), ("blk_shape", "blk_shape", "ZL"), ("blk_strides", "blk_strides", "ZL")],
    "BlocksToArray": [("oshape", "oshape", "ZL"), ("blk_shape", "blk_shape", "ZL"), ("blk_strides", "blk_strides", "ZL")],
    "Slice": [("ishape", "ishape", "ZL"), ("idx", "idx", "IDX")],
    "Embed": [("oshape", "oshape", "ZL"), ("idx", "idx", "IDX")],
    "Conj": [("A", "A", "LINOP")],
    "Add": [("linops", "linops", "LINOPS")],
    "Compose": [("linops", "linops", "LINOPS")],
    "Hstack": [("linops", "linops", "LINOPS"), ("axis", "axis", "OZ")],
    "Vstack": [("linops", "linops", "LINOPS"), ("axis", "axis", "OZ")],
    "Diag": [("linops", "linops", "LINOPS"), ("oaxis", "oaxis", "OZ"), ("iaxis", "iaxis", "OZ")],
    # library-backed (part std)
    "FFT": [("shape", "shape", "ZL"), ("axes", "axes", "OL"), ("center", "center", "B")],
    "IFFT": [("shape", "shape", "ZL"), ("axes", "axes", "OL"), ("center", "center", "B")],
    "Interpolate": [("ishape", "ishape", "ZL"), ("coord", "coord", "CREF"), ("kernel", "kernel", "KCODE"), ("width", "width", "WCODE"), ("param", "param", "WCODE")],
    "Gridding": [("oshape", "oshape", "ZL"), ("coord", "coord", "CREF"), ("kernel", "kernel", "KCODE"), ("width", "width", "WCODE"), ("param", "param", "WCODE")],
    "NUFFT": [("ishape", "ishape", "ZL"), ("coord", "coord", "CREF"), ("oversamp", "oversamp", "PCODE"), ("width", "width", "PCODE"), ("toeplitz", "toeplitz", "B")],
    "NUFFTAdjoint": [("oshape", "oshape", "ZL"), ("coord", "coord", "CREF"), ("oversamp", "oversamp", "PCODE"), ("width", "width", "PCODE")],
    "ConvolveData": [("data_shape", "data_shape", "ZL")] + CONV,
    "ConvolveDataAdjoint": [("data_shape", "data_shape", "ZL")] + CONV,
    "ConvolveFilter": [("filt_shape", "filt_shape", "ZL")] + CONVD,
    "ConvolveFilterAdjoint": [("filt_shape", "filt_shape", "ZL")] + CONVD,
}
PART_DEN = ["Identity", "Reshape", "Transpose", "Multiply", "MatMul", "RightMatMul", "Resize", "Flip", "Downsample", "Upsample",
            "Circshift", "Sum", "Tile", "ArrayToBlocks", "BlocksToArray", "Slice", "Embed", "Conj", "Add", "Compose", "Hstack",
            "Vstack", "Diag"]
PART_STD = ["FFT", "IFFT", "Interpolate", "Gridding", "NUFFT", "NUFFTAdjoint", "ConvolveData", "ConvolveDataAdjoint",
            "ConvolveFilter", "ConvolveFilterAdjoint"]
# the model argument IS the attribute (the serialised object carries the flattened list; the constructor with python's
# flattening is gen_new_Compose = mkCompose)
ATTR_DIRECT = {("Compose", "linops")}
# the hand model passes `ishape_of <term>` (model/Linop.shapes, tied to __init__ by gen/Gen_shapes.v + proofs/ShapesTie.v)
# for the input's shape although __init__'s expression could be evaluated
INPUT_SHAPE_FROM_MODEL = {"Gridding"}
NOT_COVERED = ["Wavelet", "InverseWavelet", "ToDevice", "AllReduce", "AllReduceAdjoint"]

OVERLOAD_LEMMAS = ["gen_Linop_call_ok", "gen_combine_compose_linops_ok", "gen_Linop_mul_linop_ok", "gen_Linop_mul_scalar_ok",
                   "gen_Linop_rmul_scalar_ok", "gen_Linop_add_ok", "gen_Linop_neg_ok", "gen_Linop_sub_ok"]
LEMMAS_DEN = ["gen_Linop_call_ok"] + ["gen_apply_%s_ok" % c for c in PART_DEN] + OVERLOAD_LEMMAS[1:]
LEMMAS_STD = ["gen_apply_%s_ok" % c for c in PART_STD]

RESERVED = {"by", "at", "in", "as", "end", "fun", "let", "if", "then", "else", "with", "using", "return", "fix", "cofix", "match",
            "forall", "exists", "where", "for", "mod", "Set", "Prop", "Type", "R", "Z", "N", "S", "O", "C", "E", "D", "nat", "list",
            "bool", "option", "Some", "None", "true", "false", "map", "app", "nil", "cons", "repeat", "length", "negb", "rev",
            "arr", "scal", "orc", "den", "conj", "mul", "add", "zero", "one", "linop", "aref", "go", "l", "x", "o", "k", "d", "kk",
            "y", "p", "i__", "input", "self", "fst", "snd", "last", "filter", "combine", "firstn", "skipn", "nth", "flat_map",
            "reshape", "resize", "flip", "circshift", "downsample", "upsample", "mapi", "memZ", "zrange", "ravel", "unravel",
            "getZ", "lenZ", "pyget", "shapes", "adj", "normal", "farr", "sl", "result", "Ok", "Err", "convolve", "nufft",
            "interpolate", "gridding", "Identity", "Compose", "Add", "Conj", "Multiply"} | set(CLASSES)


def san(text):
    """source text inside a Coq comment (Coq lexes comment brackets and string quotes inside comments)"""
    return " ".join(text.split()).replace("(*", "( *").replace("*)", "* )").replace('"', "'")


def zlit(n):
    return str(n) if n >= 0 else "(%d)" % n


# ---------------------------------------------------------------------------------------------------------------
# symbolic values
# ---------------------------------------------------------------------------------------------------------------
class V:
    def __init__(self, kind, term=None, **kw):
        self.kind, self.term = kind, term
        self.__dict__.update(kw)

    def __getattr__(self, name):            # optional fields default to None
        if name.startswith("__"):
            raise AttributeError(name)
        return None

    def but(self, **kw):
        r = V(self.kind, self.term)
        r.__dict__.update(self.__dict__)
        r.__dict__.update(kw)
        return r


def poison(why):
    return V("POISON", why=why)


PRELUDE = r"""(* ---------------- PRELUDE (fixed text): the numpy operations `_apply` methods use, over the pieces of model/Linop.v ----------
   np_conj x                     xp.conj(x), x.conjugate()
   np_transpose s axes x         x.transpose(axes): out[o] = x[j] with j[axes[d]] = o[d]; axes None reverses the index
                                 (axes already reduced mod ndim by Transpose.__init__)
   np_mul_scalar s x c           x * c for a python scalar c (the model broadcasts c as the shape [1] = self.mshape)
   np_mul_bcast sa sb a b        a * b with numpy broadcasting of the two shapes
   np_matmul_capt right s A cj sw x
                                 xp.matmul(M, x) (right = false) / xp.matmul(x, M) (right = true) where M is the captured array A,
                                 conjugated when cj, with its last two axes swapped when sw; batch axes broadcast
   np_sum_squeeze s ax x         xp.sum(x, axis=ax, keepdims=True).reshape(<s without the axes ax>), ax in [0, ndim)
   np_tile_axes s ax x           xp.tile(x.reshape(<s with 1 at the axes ax>), <s[d] at ax, 1 elsewhere>), x of shape s without ax
   np_index s idx x              x[idx], basic indexing (integers drop the axis)
   np_zeros_setitem s idx x      z = np.zeros(s, dtype=x.dtype); z[idx] = x; z
   np_flat_window start s x      x[start:end].reshape(s) for 1-D x: element i is x[start + ravel s i]  (end only enters numpy's
                                 size check: end - start = prod s, guaranteed by the split points of _hstack_params)
   take_axis (model/Linop.v)     x[(slice(None),)*ax + (slice(start, end),)]: index k on axis ax reads k + start (same remark on end) *)
Section Prelude.
  Variable R : Ops.
  Notation farr := (list Z -> R).
  Variable arr : Z -> farr.

  Definition np_conj (x : farr) : farr := fun i__ => conj (x i__).
  Definition np_transpose (shape : list Z) (axes : option (list Z)) (x : farr) : farr :=
    match axes with
    | None => fun o => x (rev o)
    | Some axn => fun o => x (map (fun d => match filter (fun p => fst p =? d) (combine axn o) with
                                             | p :: _ => snd p | [] => 0 end) (zrange 0 (lenZ shape) 1))
    end.
  Definition np_mul_scalar (ashape : list Z) (a : farr) (s : R) : farr :=
    fun o => let '(ie, _) := expand_shapes ashape [1] in mul (a (bcast_index ie (length ie - length ashape) o)) s.
  Definition np_mul_bcast (ashape bshape : list Z) (a b : farr) : farr :=
    let '(ie, me) := expand_shapes ashape bshape in
    fun o => mul (a (bcast_index ie (length ie - length ashape) o)) (b (bcast_index me (length me - length bshape) o)).
  Definition np_mat_entry (a : aref) (cj sw : bool) (me0 bb : list Z) (r c : Z) : R :=
    let ms := ashape_of a in
    let nd := length me0 in
    let idx_full := bb ++ (if sw then [c; r] else [r; c]) in
    let v := arr (atag a) (bcast_index me0 (nd - length ms) idx_full) in
    if cj then conj v else v.
  Definition np_matmul_capt (right : bool) (ishape : list Z) (a : aref) (cj sw : bool) (x : farr) : farr :=
    let '(ie, me0) := expand_shapes ishape (ashape_of a) in
    let nd := length ie in
    let K := if right then pyget ie (-1) else pyget ie (-2) in
    fun o =>
      let bb := firstn (nd - 2) o in
      let r := nth (nd - 2) o 0 in let c := nth (nd - 1) o 0 in
      sum_list R (map (fun k =>
        let xin := fun rr cc => x (bcast_index ie (nd - length ishape) (bb ++ [rr; cc])) in
        if right then mul (xin r k) (np_mat_entry a cj sw me0 bb k c)
        else mul (np_mat_entry a cj sw me0 bb r k) (xin k c)) (zrange 0 K 1)).
  Definition np_sum_squeeze (shape ax : list Z) (x : farr) : farr :=
    fun o => sum_list R (map (fun k => x (merge_axes 0 shape ax o k)) (enum_box (keep_axes shape ax))).
  Definition np_tile_axes (oshape ax : list Z) (x : farr) : farr :=
    fun o => x (map snd (filter (fun p => negb (memZ (fst p) ax)) (combine (zrange 0 (lenZ oshape) 1) o))).
  Definition np_index (shape : list Z) (idx : list sl) (x : farr) : farr := fun o => x (slice_gather shape idx o).
  Definition np_zeros_setitem (oshape : list Z) (idx : list sl) (x : farr) : farr :=
    fun i => match embed_lookup oshape idx i with Some k => x k | None => zero end.
  Definition np_flat_window (start : Z) (shape : list Z) (x : farr) : farr := fun i => x [start + ravel shape i].
End Prelude.
Arguments np_conj {R}. Arguments np_transpose {R}. Arguments np_mul_scalar {R}. Arguments np_mul_bcast {R}.
Arguments np_matmul_capt {R}. Arguments np_sum_squeeze {R}. Arguments np_tile_axes {R}. Arguments np_index {R}.
Arguments np_zeros_setitem {R}. Arguments np_flat_window {R}.

(* computation; else case analysis on the optional / boolean / multiplier arguments, then computation *)
Ltac tie_args := repeat match goal with
  | v : option _ |- _ => destruct v
  | v : bool |- _ => destruct v
  | v : mult_t |- _ => destruct v
  end.
Ltac tie := first [ reflexivity | tie_args; reflexivity ].
(* ---------------- end of PRELUDE ---------------- *)
"""

HEADER = """(* Gen_linop_apply.v -- GENERATED by tools/translate_linop_apply.py.  Do not edit.
   sources: %s
   What every `_apply` of sigpy/linop.py computes (and Linop.apply / __call__ / the operator overloads), as written in the
   source, over the operations of model/Linop.v, Rearrange.v, Block.v (part den) and of the function models behind
   model/OpaqueStd.orc_std (part std), each with the lemma that it equals the corresponding clause of [den] (force := noforce).
   Conventions (notes/translate_linop_apply.md): a model term stands for the object its constructor builds; `self.a` is what
   __init__ assigned; tests on attributes fork the method (match / if at the top); every Python assignment is a `let`
   (comment: source line); loop variables carry the suffix _it, the lists they run over _s. *)
From Coq Require Import ZArith List Bool.
From SV Require Import lib.Scalar lib.BigSum lib.LoopIR lib.NdArray lib.Gather model.Rearrange model.Block model.Linop.
Import ListNotations.
Local Open Scope Z_scope.

"""

STD_REQUIRE = """From SV Require Import lib.Coord gen.Gen_interp model.Interp model.Fourier model.Conv model.Wavelet model.Nufft
  model.OpaqueFourier model.OpaqueConv model.OpaqueInterp model.OpaqueWavelet model.OpaqueNufft model.OpaqueStd.
"""


# ---------------------------------------------------------------------------------------------------------------
# the module: classes, helper functions, sibling modules' signatures; everything the reading relies on is checked
# ---------------------------------------------------------------------------------------------------------------
SIBLINGS = ("util", "block", "fourier", "interp", "conv")
PURE_CHECKS = ("_check_shape_positive", "_check_compose_linops", "_check_linops_same_ishape", "_check_linops_same_oshape")
HELPERS = PURE_CHECKS + ("_combine_compose_linops", "_hstack_params", "_vstack_params", "_alloc_stack_output")
BUILTINS = {"len", "tuple", "list", "slice", "enumerate", "isinstance", "super", "range", "zip", "all", "max", "min"}
OVERLOADS = ("apply", "__call__", "__mul__", "__rmul__", "__add__", "__sub__", "__neg__", "_check_ishape", "_check_oshape",
             "__getattr__", "__getattribute__", "__setattr__")

# fixed text the reading of a helper depends on (compared as ASTs, docstrings ignored)
TEMPLATES = {
    "_alloc_stack_output": '''
def _alloc_stack_output(xp, output, oshape, dtype):
    if output is None:
        return xp.empty(oshape, dtype=dtype)

    dtype = xp.result_type(output.dtype, dtype)
    if dtype != output.dtype:
        return output.astype(dtype)

    return output
''',
    "Linop.__init__": '''
def __init__(self, oshape, ishape, repr_str=None):
    self.oshape = list(oshape)
    self.ishape = list(ishape)

    _check_shape_positive(oshape)
    _check_shape_positive(ishape)

    if repr_str is None:
        self.repr_str = self.__class__.__name__
    else:
        self.repr_str = repr_str

    self.adj = None
    self.normal = None
''',
    "Linop._check_ishape": '''
def _check_ishape(self, input):
    for i1, i2 in zip(input.shape, self.ishape):
        if i2 != -1 and i1 != i2:
            raise ValueError(
                "input shape mismatch for {s}, got {input_shape}".format(
                    s=self, input_shape=input.shape
                )
            )
''',
    "Linop._check_oshape": '''
def _check_oshape(self, output):
    for o1, o2 in zip(output.shape, self.oshape):
        if o2 != -1 and o1 != o2:
            raise ValueError(
                "output shape mismatch for {s}, got {output_shape}".format(
                    s=self, output_shape=output.shape
                )
            )
''',
}


def strip_doc(fn):
    body = list(fn.body)
    if body and isinstance(body[0], ast.Expr) and isinstance(body[0].value, ast.Constant) and isinstance(body[0].value.value, str):
        body = body[1:]
    return body


def same_as_template(fn, key):
    ref = ast.parse(TEMPLATES[key]).body[0]
    a = ast.dump(ast.Module(body=strip_doc(fn), type_ignores=[]))
    b = ast.dump(ast.Module(body=strip_doc(ref), type_ignores=[]))
    return a == b and ast.dump(fn.args) == ast.dump(ref.args) and not fn.decorator_list


def is_pure_check(stmts):
    """only for / if / raise: the function returns None and changes nothing (it may only raise)"""
    for s in stmts:
        if isinstance(s, ast.Raise):
            continue
        if isinstance(s, ast.For) and not s.orelse and is_pure_check(s.body):
            continue
        if isinstance(s, ast.If) and is_pure_check(s.body) and is_pure_check(s.orelse):
            continue
        return False
    return True


class Module:
    def __init__(self, repo, path=None):
        self.path = path or os.path.join(repo, SRC_REL)
        self.src = open(self.path).read()
        self.sha = {SRC_REL: hashlib.sha256(self.src.encode()).hexdigest()}
        self.tree = ast.parse(self.src)
        self.sib = {}
        for m in SIBLINGS:
            p = os.path.join(repo, "sigpy", m + ".py")
            if not os.path.exists(p):
                raise TranslationError("sigpy/%s.py not found next to linop.py" % m)
            txt = open(p).read()
            self.sha["sigpy/%s.py" % m] = hashlib.sha256(txt.encode()).hexdigest()
            fns = {}
            for f in ast.parse(txt).body:
                if isinstance(f, ast.FunctionDef):
                    if f.name in fns:
                        raise TranslationError("sigpy/%s.py defines %s twice" % (m, f.name))
                    fns[f.name] = f
            self.sib[m] = fns
        self.classes, self.funcs = {}, {}
        self.facts()

    def fail(self, node, msg):
        raise TranslationError("linop.py line %d: %s" % (getattr(node, "lineno", 0), msg))

    def facts(self):
        tree = self.tree
        np_ok = sig_ok = False
        for node in tree.body:
            if isinstance(node, ast.Expr) and isinstance(node.value, ast.Constant) and isinstance(node.value.value, str):
                continue
            if isinstance(node, ast.Import):
                if [(a.name, a.asname) for a in node.names] == [("numpy", "np")]:
                    np_ok = True
                    continue
                self.fail(node, "import other than `import numpy as np`")
            if isinstance(node, ast.ImportFrom):
                if node.module == "sigpy" and node.level == 0 and all(a.asname is None for a in node.names) \
                        and sorted(a.name for a in node.names) == sorted(SIBLINGS + ("backend", "wavelet")):
                    sig_ok = True
                    continue
                self.fail(node, "import other than `from sigpy import backend, block, conv, fourier, interp, util, wavelet`")
            if isinstance(node, ast.FunctionDef):
                if node.name in self.funcs or node.name in self.classes:
                    self.fail(node, "`%s` is defined twice" % node.name)
                self.funcs[node.name] = node
                continue
            if isinstance(node, ast.ClassDef):
                if node.name in self.funcs or node.name in self.classes:
                    self.fail(node, "`%s` is defined twice" % node.name)
                self.classes[node.name] = node
                continue
            self.fail(node, "module-level statement other than import / def / class (the classes could be patched after their definition)")
        if not (np_ok and sig_ok):
            raise TranslationError("linop.py no longer imports numpy as np and the sigpy modules by name")
        watched = {"np", "backend", "wavelet"} | set(SIBLINGS) | BUILTINS | set(HELPERS) | set(CLASSES) | {"Linop"}
        for node in ast.walk(tree):
            if isinstance(node, ast.Name) and isinstance(node.ctx, (ast.Store, ast.Del)) and node.id in watched:
                self.fail(node, "the name `%s` is rebound" % node.id)
            if isinstance(node, ast.arg) and node.arg in watched:
                self.fail(node, "parameter named `%s`" % node.arg)
            if isinstance(node, (ast.Global, ast.Nonlocal)):
                self.fail(node, "global / nonlocal")
            if isinstance(node, (ast.Import, ast.ImportFrom)) and not any(node is s for s in tree.body):
                for a in node.names:
                    if (a.asname or a.name.split(".")[0]) in watched or a.name == "*":
                        self.fail(node, "local import rebinding `%s`" % (a.asname or a.name))
            if isinstance(node, (ast.FunctionDef, ast.ClassDef, ast.AsyncFunctionDef)) and node.name in watched \
                    and not any(node is s for s in tree.body):
                self.fail(node, "nested definition of `%s`" % node.name)
        for h in HELPERS:
            if h not in self.funcs:
                raise TranslationError("linop.py no longer defines %s" % h)
            if self.funcs[h].decorator_list:
                self.fail(self.funcs[h], "decorated helper")
        for h in PURE_CHECKS:
            if not is_pure_check(strip_doc(self.funcs[h])):
                self.fail(self.funcs[h], "%s is no longer a pure check (for / if / raise only): its calls are read as preconditions" % h)
        if not same_as_template(self.funcs["_alloc_stack_output"], "_alloc_stack_output"):
            self.fail(self.funcs["_alloc_stack_output"],
                      "_alloc_stack_output differs from the text its reading was written for (a fresh / promoted buffer that keeps "
                      "the blocks written so far; dtype promotion itself is outside the value model)")
        if "Linop" not in self.classes:
            raise TranslationError("class Linop missing")
        base = self.classes["Linop"]
        if base.bases or base.keywords or base.decorator_list:
            self.fail(base, "class Linop has bases / decorators")
        self.methods = {}
        for cname, c in self.classes.items():
            ms = {}
            for st in c.body:
                if isinstance(st, ast.Expr) and isinstance(st.value, ast.Constant) and isinstance(st.value.value, str):
                    continue
                if isinstance(st, ast.FunctionDef):
                    if st.name in ms:
                        self.fail(st, "%s.%s is defined twice" % (cname, st.name))
                    if st.decorator_list and not (cname == "Linop" and st.name in ("H", "N")):
                        self.fail(st, "decorated method %s.%s" % (cname, st.name))
                    ms[st.name] = st
                    continue
                if cname in CLASSES or cname == "Linop":
                    self.fail(st, "class body statement other than a method in %s" % cname)
            self.methods[cname] = ms
        for key in ("__init__", "_check_ishape", "_check_oshape"):
            if key not in self.methods["Linop"] or not same_as_template(self.methods["Linop"][key], "Linop." + key):
                raise TranslationError("Linop.%s differs from the text its reading was written for" % key)
        for cname in CLASSES:
            if cname not in self.classes:
                raise TranslationError("class %s missing" % cname)
            c = self.classes[cname]
            if c.decorator_list or c.keywords or len(c.bases) != 1 or not (isinstance(c.bases[0], ast.Name) and c.bases[0].id == "Linop"):
                self.fail(c, "class %s is not a plain subclass of Linop" % cname)
            for m in OVERLOADS:
                if m in self.methods[cname]:
                    self.fail(self.methods[cname][m], "%s overrides Linop.%s (every class is read through the base method)" % (cname, m))
            for m in ("__init__", "_apply"):
                if m not in self.methods[cname]:
                    self.fail(c, "%s has no %s" % (cname, m))
            a = self.methods[cname]["__init__"].args
            names = [x.arg for x in a.args[1:]]
            if a.vararg or a.kwarg or a.kwonlyargs or a.posonlyargs or names != [p for p, _, _ in CLASSES[cname]]:
                self.fail(self.methods[cname]["__init__"], "%s.__init__ takes %s, the model %s" % (cname, names, [p for p, _, _ in CLASSES[cname]]))
            ap = self.methods[cname]["_apply"].args
            if [x.arg for x in ap.args] != ["self", "input"] or ap.vararg or ap.kwarg or ap.kwonlyargs or ap.defaults:
                self.fail(self.methods[cname]["_apply"], "%s._apply is not _apply(self, input)" % cname)

    def signature(self, fn):
        """[(name, default ast or None)] of a sibling-module function"""
        a = fn.args
        if a.vararg or a.kwarg or a.kwonlyargs or a.posonlyargs or fn.decorator_list:
            raise TranslationError("signature of %s not understood" % fn.name)
        names = [x.arg for x in a.args]
        d = [None] * (len(names) - len(a.defaults)) + list(a.defaults)
        return list(zip(names, d))


# ---------------------------------------------------------------------------------------------------------------
# the evaluator: one method (preceded by the class's __init__) on one path of attribute decisions
# ---------------------------------------------------------------------------------------------------------------
def stores(stmt):
    """names / self attributes a statement may (re)bind or mutate"""
    out = set()
    for n in ast.walk(stmt):
        if isinstance(n, ast.Name) and isinstance(n.ctx, (ast.Store, ast.Del)):
            out.add(n.id)
        if isinstance(n, ast.Attribute) and isinstance(n.value, ast.Name) and n.value.id == "self":
            if isinstance(n.ctx, (ast.Store, ast.Del)):
                out.add("self." + n.attr)
        if isinstance(n, ast.Call) and isinstance(n.func, ast.Attribute):          # x.append(..), self.a.append(..)
            b = n.func.value
            if isinstance(b, ast.Name) and b.id != "self":
                out.add(b.id)
            if isinstance(b, ast.Attribute) and isinstance(b.value, ast.Name) and b.value.id == "self":
                out.add("self." + b.attr)
        if isinstance(n, (ast.Subscript,)) and isinstance(n.ctx, ast.Store):
            b = n.value
            if isinstance(b, ast.Name):
                out.add(b.id)
            if isinstance(b, ast.Attribute) and isinstance(b.value, ast.Name) and b.value.id == "self":
                out.add("self." + b.attr)
    return out


class Ev:
    def __init__(self, mod, cname, decisions, std=False):
        self.mod, self.cname, self.dec, self.std = mod, cname, decisions, std
        self.used = set()
        self.lines = []
        self.wrappers = []          # (open text, close text) around the method's term
        self.attrs = {}
        self.init_mode = False
        self.loopctx = None
        self.where = cname or "Linop"

    # ---- errors, names ----------------------------------------------------------------------------------------
    def err(self, node, msg):
        seg = ""
        try:
            seg = ast.unparse(node) if isinstance(node, ast.AST) else ""
        except Exception:
            pass
        raise TranslationError("%s, linop.py line %d: %s%s" % (self.where, getattr(node, "lineno", 0), msg,
                                                               (": `%s`" % " ".join(seg.split())[:160]) if seg else ""))

    def fresh(self, hint):
        hint = re.sub(r"[^A-Za-z0-9_]", "_", hint)
        k = 1
        while "%s_%d" % (hint, k) in self.used:
            k += 1
        name = "%s_%d" % (hint, k)
        self.used.add(name)
        return name

    def let(self, hint, term, node):
        name = self.fresh(hint)
        self.lines.append("let %s := %s in   (* L%d: %s *)" % (name, term, node.lineno, san(ast.unparse(node))[:150]))
        return name

    def note(self, node, what):
        self.lines.append("(* L%d: %s -- %s *)" % (node.lineno, san(ast.unparse(node))[:150], what))

    # ---- decisions --------------------------------------------------------------------------------------------
    def decide(self, key):
        if key not in self.dec:
            raise Undecided(key)
        return self.dec[key]

    def resolve(self, v):
        if v.kind == "OPT" and ("none", v.term) in self.dec:
            if self.dec[("none", v.term)]:
                return V("NONE")
            g = v.term + "_given"
            return V("ZL", g, atom=True, seq="any") if v.inner == "ZL" else V("Z", g)
        if v.kind == "MULT" and ("isscalar", v.term) in self.dec:
            return V("SCALTAG", v.term + "_tag") if self.dec[("isscalar", v.term)] else V("AREF", v.term + "_ref")
        return v

    # ---- small converters -------------------------------------------------------------------------------------
    def zt(self, v, node):
        if v.kind == "Z":
            return v.term
        if v.kind == "LIT":
            return zlit(v.lit)
        if v.kind == "STREAM":
            if self.loopctx is not None:
                self.loopctx["used"].add(v.pyname)
            return v.term
        if v.kind == "OPT" and v.inner == "Z":
            raise Undecided(("none", v.term))
        if v.kind == "POISON":
            self.err(node, "a value __init__ computes in a way the translator does not read (%s) is used" % v.why)
        self.err(node, "a value of kind %s where a Python int is expected" % v.kind)

    def zl(self, v, node):
        if v.kind == "ZL":
            return v.term
        if v.kind == "OPT" and v.inner == "ZL":
            raise Undecided(("none", v.term))
        if v.kind == "POISON":
            self.err(node, "a value __init__ computes in a way the translator does not read (%s) is used" % v.why)
        self.err(node, "a value of kind %s where a list / tuple of ints is expected" % v.kind)

    def opt(self, v, node, inner="ZL"):
        """term of type option (list Z) / option Z for an argument that may be None"""
        if v.kind == "NONE":
            return "None"
        if v.kind == "OPT" and v.inner == inner:
            return v.term
        if inner == "ZL" and v.kind == "ZL":
            return "(Some %s)" % v.term
        if inner == "Z" and v.kind in ("Z", "LIT"):
            return "(Some %s)" % self.zt(v, node)
        if v.kind == "POISON":
            self.err(node, "a value __init__ computes in a way the translator does not read (%s) is used" % v.why)
        self.err(node, "a value of kind %s where None or a list of ints is expected" % v.kind)

    def bt(self, v, node):
        if v.kind in ("B", "MODE"):
            return v.term
        if v.kind == "POISON":
            self.err(node, "a value __init__ computes in a way the translator does not read (%s) is used" % v.why)
        self.err(node, "a value of kind %s where a bool is expected" % v.kind)

    def arr(self, v, node):
        """(shape V or None, data term) of an array value"""
        if v.kind == "ARR":
            if v.data is None:
                self.err(node, "an array view (conj / swapaxes of a captured array) is used outside xp.matmul")
            return v
        if v.kind == "AREF":          # a captured data array used as an array
            if self.std and self.cname not in ("ConvolveData", "ConvolveDataAdjoint", "ConvolveFilter", "ConvolveFilterAdjoint"):
                self.err(node, "captured data array in a class whose captured arrays are coordinates")
            return V("ARR", shape=V("ZL", "(ashape_of %s)" % v.term, seq="tuple"), data="(arr (atag %s))" % v.term,
                     capt=(v.term, "false", "false"), origin=v.term)
        if v.kind == "POISON":
            self.err(node, "a value __init__ computes in a way the translator does not read (%s) is used" % v.why)
        self.err(node, "a value of kind %s where an array is expected" % v.kind)

    def shape_term(self, a, node):
        if a.shape is None:
            self.err(node, "the shape of this array is not known to the translator")
        return self.zl(a.shape, node)

    # ---- tests (static on a path) -----------------------------------------------------------------------------
    def test(self, n, env):
        if isinstance(n, ast.UnaryOp) and isinstance(n.op, ast.Not):
            return not self.test(n.operand, env)
        if isinstance(n, ast.Compare) and len(n.ops) == 1 and isinstance(n.ops[0], (ast.Is, ast.IsNot)) \
                and isinstance(n.comparators[0], ast.Constant) and n.comparators[0].value is None:
            v = self.ev(n.left, env)
            if v.kind == "NONE":
                r = True
            elif v.kind == "OPT":
                r = self.decide(("none", v.term))
            elif v.kind in ("ZL", "Z", "LIT", "ARR", "LINOP", "LINOPS", "AREF", "CREF", "IDX", "B", "MODE", "SCALTAG"):
                r = False
            else:
                self.err(n, "`is None` on a value of kind %s" % v.kind)
            return r if isinstance(n.ops[0], ast.Is) else not r
        if isinstance(n, ast.Call) and isinstance(n.func, ast.Attribute) and n.func.attr == "isscalar" and not n.keywords \
                and len(n.args) == 1 and self.ev(n.func.value, env).kind == "NP":
            v = self.ev(n.args[0], env)
            if v.kind == "MULT":
                return self.decide(("isscalar", v.term))
            if v.kind in ("SCALTAG", "LIT"):
                return True
            if v.kind in ("AREF", "ARR", "LINOP", "ZL"):
                return False
            self.err(n, "np.isscalar of a value of kind %s" % v.kind)
        if isinstance(n, ast.Call) and isinstance(n.func, ast.Name) and n.func.id == "isinstance" and len(n.args) == 2 and not n.keywords:
            v = self.ev(n.args[0], env)
            c = n.args[1]
            if isinstance(c, ast.Name) and c.id == "Linop":
                if v.kind == "LINOP":
                    return True
                if v.kind in ("SCALTAG", "ARR", "LIT"):
                    return False
                self.err(n, "isinstance(.., Linop) of a value of kind %s" % v.kind)
            if ast.unparse(c) == "backend.get_array_module(%s).ndarray" % ast.unparse(n.args[0]):
                if v.kind == "ARR":
                    return True
                if v.kind in ("SCALTAG", "LINOP", "LIT"):
                    return False
            self.err(n, "isinstance test not understood")
        v = self.ev(n, env)
        if v.kind == "B" and v.flag:
            return self.decide(("flag", v.term))
        self.err(n, "condition that is not a test on an attribute (`is None`, a bool attribute, np.isscalar, isinstance)")

    # ---- expressions ------------------------------------------------------------------------------------------
    def ev(self, n, env):
        if isinstance(n, ast.Constant):
            if n.value is None:
                return V("NONE")
            if isinstance(n.value, bool):
                return V("B", "true" if n.value else "false")
            if isinstance(n.value, int):
                return V("LIT", lit=n.value)
            if isinstance(n.value, str):
                return V("STR", s=n.value)
            self.err(n, "constant not understood")
        if isinstance(n, ast.Name):
            if n.id in env:
                v = env[n.id]
                if v.kind == "DEAD":
                    self.err(n, "loop counter / dead variable used")
                return self.resolve(v)
            if n.id == "np":
                return V("NP")
            if n.id == "backend":
                return V("BACKEND")
            if n.id in SIBLINGS:
                return V("MOD", name=n.id)
            if n.id in self.mod.classes:
                return V("CLASS", name=n.id)
            if n.id in self.mod.funcs:
                return V("FUNC", name=n.id)
            self.err(n, "unknown name (not a parameter, not assigned on this path)")
        if isinstance(n, ast.Attribute):
            return self.attribute(n, env)
        if isinstance(n, ast.UnaryOp):
            if isinstance(n.op, ast.USub):
                v = self.ev(n.operand, env)
                if v.kind == "LIT":
                    return V("LIT", lit=-v.lit)
                if v.kind == "Z":
                    return V("Z", "(- %s)" % v.term, neg_of=v.term)
                if v.kind == "LINOP":                       # -A  ->  A.__neg__()
                    return self.method_call(v, "__neg__", [], n)
            self.err(n, "unary operator not understood here")
        if isinstance(n, ast.BinOp):
            return self.binop(n, env)
        if isinstance(n, ast.Compare):
            return self.compare(n, env)
        if isinstance(n, ast.List):
            items = [self.ev(e, env) for e in n.elts]
            if len(items) == 1 and items[0].kind == "SLICE":
                return V("SLL", parts=[("one", items[0])], seq="list")
            if items and all(v.kind == "LINOP" for v in items):
                return V("LINOPS", "[%s]" % "; ".join(v.term for v in items))
            if all(v.kind in ("LIT", "Z") for v in items):
                return V("ZL", "[%s]" % "; ".join(self.zt(v, n) for v in items), seq="list", items=items)
            self.err(n, "list display not understood")
        if isinstance(n, ast.ListComp):
            return self.comprehension(n, env, "list")
        if isinstance(n, ast.Subscript):
            return self.subscript(n, env)
        if isinstance(n, ast.Call):
            return self.call(n, env)
        self.err(n, "expression form not understood")

    def attribute(self, n, env):
        if isinstance(n.value, ast.Name) and n.value.id == "self" and "self" in env and env["self"].kind == "SELF":
            return self.self_attr(n.attr, n)
        b = self.ev(n.value, env)
        if b.kind == "LINOP":
            if n.attr == "ishape":
                return V("ZL", "(ishape_of %s)" % b.term, seq="list")
            if n.attr == "oshape":
                return V("ZL", "(oshape_of %s)" % b.term, seq="list")
            if n.attr == "linops" and b.compose_list:
                return V("LINOPS", b.compose_list)
            self.err(n, "attribute of an operator other than ishape / oshape")
        if b.kind == "DEVICE" and n.attr == "xp":
            return V("XP")
        if b.kind in ("AREF", "CREF") and n.attr == "shape":
            return V("ZL", "(ashape_of %s)" % b.term, seq="tuple")
        if b.kind == "ARR":
            if n.attr == "shape":
                if b.shape is None:
                    self.err(n, "the shape of this array is not known to the translator")
                return b.shape
            if n.attr == "dtype":
                return V("DTYPE", of=b)
        self.err(n, "attribute not understood")

    def self_attr(self, name, n):
        if self.cname is None:                                   # a method of the base class, self any operator
            if name == "ishape":
                return V("ZL", "(ishape_of self)", seq="list")
            if name == "oshape":
                return V("ZL", "(oshape_of self)", seq="list")
            self.err(n, "attribute of self in a base-class method")
        if name not in self.attrs:
            self.err(n, "self.%s is not assigned by %s.__init__" % (name, self.cname))
        v = self.attrs[name]
        if v.kind == "POISON" and name in ("ishape", "oshape"):
            # the model's own shape function (model/Linop.shapes, tied to __init__ by gen/Gen_shapes.v + proofs/ShapesTie.v)
            return V("ZL", "(%s_of %s)" % (name, self.self_term()), seq="list")
        if v.kind == "POISON":
            self.err(n, "self.%s: __init__ computes it in a way the translator does not read (%s)" % (name, v.why))
        return self.resolve(v)

    def self_term(self):
        return "(%s %s)" % (self.cname, " ".join(m for _, m, _ in CLASSES[self.cname]))

    def binop(self, n, env):
        a, b = self.ev(n.left, env), self.ev(n.right, env)
        op = type(n.op)
        ints = ("Z", "LIT", "STREAM")
        if a.kind in ints and b.kind in ints:
            fmt = {ast.Add: "(%s + %s)", ast.Sub: "(%s - %s)", ast.Mult: "(%s * %s)", ast.FloorDiv: "(%s / %s)",
                   ast.Mod: "(%s mod %s)"}.get(op)
            if fmt is None:
                self.err(n, "integer operator not understood (the model has + - * // %)")
            if a.kind == "LIT" and b.kind == "LIT":
                self.err(n, "arithmetic on literals only")
            return V("Z", fmt % (self.zt(a, n), self.zt(b, n)))
        if op is ast.Mod and a.kind == "OPT" and a.inner == "Z":
            raise Undecided(("none", a.term))
        if op is ast.Mult and a.kind == "LIT" and b.kind == "LINOP":        # int.__mul__ gives NotImplemented -> B.__rmul__(a)
            return self.method_call(b, "__rmul__", [a], n)
        if op is ast.Mult and a.kind == "SLL" and a.seq == "list" and len(a.parts) == 1 and a.parts[0][0] == "one" and b.kind in ints:
            s = a.parts[0][1]
            if not (s.start is None and s.stop is None and s.step is None):
                self.err(n, "repetition of a slice other than slice(None)")
            return V("SLL", parts=[("rep", V("Z", self.zt(b, n)))], seq="list")
        if op is ast.Add and a.kind == "SLL" and b.kind == "SLL" and a.seq == b.seq == "list":
            return V("SLL", parts=a.parts + b.parts, seq="list")
        if op is ast.Add and a.kind == "ZL" and b.kind == "ZL":
            if a.seq != b.seq or a.seq not in ("list", "tuple"):
                self.err(n, "concatenation of a %s and a %s" % (a.seq, b.seq))
            return V("ZL", "(%s ++ %s)" % (a.term, b.term), seq=a.seq)
        if op is ast.Mult and a.kind in ("ARR", "AREF") and b.kind in ("ARR", "AREF", "SCAL", "SCALTAG"):
            x = self.arr(a, n)
            if b.kind == "SCALTAG":
                b = V("SCAL", "(scal %s)" % b.term)
            if b.kind == "SCAL":
                return V("ARR", shape=None, data="(np_mul_scalar %s %s %s)" % (self.shape_term(x, n), x.data, b.term))
            y = self.arr(b, n)
            return V("ARR", shape=None, data="(np_mul_bcast %s %s %s %s)" % (self.shape_term(x, n), self.shape_term(y, n), x.data, y.data))
        if op is ast.Add and a.kind == "LIT" and a.lit == 0 and b.kind == "ARR":          # output = 0; output = output + A(x)
            return V("ACCSUM", term_arr=self.arr(b, n))
        self.err(n, "operator between values of kinds %s and %s" % (a.kind, b.kind))

    def compare(self, n, env):
        if len(n.ops) != 1:
            self.err(n, "chained comparison")
        op = type(n.ops[0])
        if op in (ast.In, ast.NotIn):
            a, b = self.ev(n.left, env), self.ev(n.comparators[0], env)
            if a.kind in ("Z", "LIT") and b.kind == "ZL":
                t = "(memZ %s %s)" % (self.zt(a, n), b.term)
                return V("B", t if op is ast.In else "(negb %s)" % t, mem=(a, b, op is ast.In))
        self.err(n, "comparison not understood here")

    def comprehension(self, n, env, seq):
        if len(n.generators) != 1:
            self.err(n, "comprehension with several `for`")
        g = n.generators[0]
        if g.is_async or not isinstance(g.target, ast.Name):
            self.err(n, "comprehension target not understood")
        v = g.target.id
        # [S[i] for i in range(len(S)) if i not in AX]  ->  S without the axes AX
        if len(g.ifs) == 1 and isinstance(g.iter, ast.Call) and ast.unparse(g.iter.func) == "range" and len(g.iter.args) == 1:
            it = g.iter.args[0]
            if isinstance(it, ast.Call) and ast.unparse(it.func) == "len" and len(it.args) == 1 \
                    and isinstance(n.elt, ast.Subscript) and ast.dump(n.elt.value) == ast.dump(it.args[0]) \
                    and isinstance(n.elt.slice, ast.Name) and n.elt.slice.id == v:
                S = self.ev(it.args[0], env)
                c = g.ifs[0]
                if isinstance(c, ast.Compare) and len(c.ops) == 1 and isinstance(c.ops[0], ast.NotIn) \
                        and isinstance(c.left, ast.Name) and c.left.id == v and S.kind == "ZL":
                    AX = self.ev(c.comparators[0], env)
                    if AX.kind == "ZL":
                        return V("ZL", "(remove_axes %s %s)" % (S.term, AX.term), seq=seq, squeeze=(S.term, AX.term))
            self.err(n, "filtered comprehension other than [S[i] for i in range(len(S)) if i not in AXES]")
        if g.ifs:
            self.err(n, "comprehension with a condition")
        it = self.ev(g.iter, env)
        e = dict(env)
        if it.kind == "ZL":
            var = self.fresh(v)
            e[v] = V("Z", var)
            el = self.ev(n.elt, e)
            if el.kind in ("Z", "LIT"):
                return V("ZL", "(map (fun %s => %s) %s)" % (var, self.zt(el, n), it.term), seq=seq)
            self.err(n, "comprehension element of kind %s" % el.kind)
        if it.kind == "LINOPS":
            var = self.fresh(v)
            e[v] = V("LINOP", var)
            el = self.ev(n.elt, e)
            if el.kind == "ZL" and el.term in ("(ishape_of %s)" % var, "(oshape_of %s)" % var):
                return V("ZLL", "(map %s %s)" % (el.term[1:].split()[0], it.term), seq=seq)
            self.err(n, "comprehension over operators other than [l.ishape for l in ..] / [l.oshape for l in ..]")
        self.err(n, "comprehension over a value of kind %s" % it.kind)

    def subscript(self, n, env):
        a = self.ev(n.value, env)
        sl = n.slice
        if a.kind == "ZL":
            if isinstance(sl, ast.Slice):
                if sl.step is not None or sl.lower is not None or sl.upper is None:
                    self.err(n, "list slice other than l[:-k]")
                k = self.ev(sl.upper, env)
                if k.kind == "LIT" and k.lit < 0:
                    return V("ZL", "(droplast %d %s)" % (-k.lit, a.term), seq=a.seq)
                if k.kind == "Z" and k.term.startswith("(- ") and k.neg_of:
                    return V("ZL", "(droplast (Z.to_nat %s) %s)" % (k.neg_of, a.term), seq=a.seq)
                self.err(n, "list slice other than l[:-k]")
            i = self.ev(sl, env)
            if i.kind == "LIT" and i.lit == -1:
                return V("Z", "(last %s 0)" % a.term)
            self.err(n, "list index other than l[-1]")
        if a.kind in ("ARR",):
            x = self.arr(a, n)
            if isinstance(sl, ast.Slice):
                if sl.step is not None or sl.lower is None or sl.upper is None:
                    self.err(n, "array slice other than a[start:end]")
                return V("WIN1", of=x, start=self.ev(sl.lower, env), stop=self.ev(sl.upper, env))
            i = self.ev(sl, env)
            if i.kind == "SLL":
                ax, s = self.slcax(i, n)
                if s.step is not None or s.start is None:
                    self.err(n, "slice tuple whose slice is not slice(start, end)")
                return V("ARR", shape=None, data="(take_axis R %s %s %s)" % (ax, self.zt(s.start, n), x.data))
            if i.kind == "IDX":
                return V("ARR", shape=None, data="(np_index %s %s %s)" % (self.shape_term(x, n), i.term, x.data))
            self.err(n, "array index of kind %s" % i.kind)
        self.err(n, "subscript of a value of kind %s" % a.kind)

    def slcax(self, i, node):
        """tuple([slice(None)] * a + [slice(s, e)] + [slice(None)] * b) -> (axis term a, the slice)"""
        if i.seq != "tuple":
            self.err(node, "index by a list of slices (numpy wants a tuple)")
        p = i.parts
        if len(p) in (2, 3) and p[0][0] == "rep" and p[1][0] == "one" and (len(p) == 2 or p[2][0] == "rep"):
            return p[0][1].term, p[1][1]
        self.err(node, "slice tuple other than [slice(None)] * axis + [slice(start, end)] + [slice(None)] * rest")

    # ---- calls ------------------------------------------------------------------------------------------------
    def kwargs(self, n):
        kw = {}
        for k in n.keywords:
            if k.arg is None or k.arg in kw:
                self.err(n, "keyword arguments not understood")
            kw[k.arg] = k.value
        if any(isinstance(a, ast.Starred) for a in n.args):
            self.err(n, "starred argument")
        return kw

    def call(self, n, env):
        f = n.func
        kw = self.kwargs(n)
        nargs = len(n.args)
        if isinstance(f, ast.Name) and f.id not in env:
            name = f.id
            if name == "len" and nargs == 1 and not kw:
                v = self.ev(n.args[0], env)
                if v.kind == "ZL":
                    return V("Z", "(lenZ %s)" % v.term, lenof=v.term)
                if v.kind == "LINOPS":
                    return V("Z", "(lenZ %s)" % v.term, lenof=v.term)
                self.err(n, "len of a value of kind %s" % v.kind)
            if name in ("tuple", "list") and nargs == 1 and not kw:
                a = n.args[0]
                if isinstance(a, ast.GeneratorExp):
                    return self.comprehension(a, env, name)
                v = self.ev(a, env)
                if v.kind in ("ZL", "SLL"):
                    return v.but(seq=name)
                self.err(n, "%s() of a value of kind %s" % (name, v.kind))
            if name == "slice" and not kw and 1 <= nargs <= 2:
                parts = [self.ev(a, env) for a in n.args]
                for p in parts:
                    if p.kind not in ("Z", "LIT", "NONE", "STREAM"):
                        self.err(n, "slice bound of kind %s" % p.kind)
                parts = [None if p.kind == "NONE" else p for p in parts]
                if nargs == 1:
                    return V("SLICE", start=None, stop=parts[0], step=None)
                return V("SLICE", start=parts[0], stop=parts[1], step=None)
            if name in HELPERS:
                return self.helper_call(name, n, env, kw)
            if name in CLASSES and name in ("Compose", "Add", "Multiply"):
                return self.construct(name, n, env, kw)
            self.err(n, "call not understood")
        if isinstance(f, ast.Attribute) and isinstance(f.value, ast.Call) and ast.unparse(f.value) == "super()" and f.attr == "__init__":
            if not self.init_mode or not 2 <= nargs or set(kw) - {"repr_str"}:
                self.err(n, "super().__init__ call not understood")
            for key, a in (("oshape", n.args[0]), ("ishape", n.args[1])):
                try:
                    v = self.ev(a, env)
                    if v.kind != "ZL":
                        v = poison("a shape of kind %s" % v.kind)
                    else:
                        v = v.but(seq="list")                       # Linop.__init__: self.oshape = list(oshape)
                except TranslationError as e:
                    v = poison(str(e))
                self.attrs[key] = v
            return V("NONEVAL")
        fv = self.ev(f, env) if not isinstance(f, ast.Attribute) else None
        if fv is not None:
            if fv.kind == "LINOP":
                return self.op_call(fv, n, env, kw)
            self.err(n, "call of a value of kind %s" % fv.kind)
        # attribute calls
        if isinstance(f.value, ast.Name) and f.value.id == "self" and "self" in env and env["self"].kind == "SELF" \
                and f.attr not in self.attrs:
            self.err(n, "method call on self in a class method")
        try_attr = None
        if isinstance(f.value, ast.Name) and f.value.id == "self" and "self" in env and env["self"].kind == "SELF":
            try_attr = self.self_attr(f.attr, n)
            if try_attr.kind == "LINOP":
                return self.op_call(try_attr, n, env, kw)
            self.err(n, "call of self.%s" % f.attr)
        b = self.ev(f.value, env)
        a = f.attr
        if b.kind == "LINOP":
            if kw:
                self.err(n, "keywords in a method call on an operator")
            return self.method_call(b, a, [self.ev(x, env) for x in n.args], n)
        if b.kind == "BACKEND":
            if a == "get_device" and nargs == 1 and not kw and self.ev(n.args[0], env).kind in ("ARR",):
                return V("DEVICE")
            if a == "to_device" and nargs == 2 and not kw and self.ev(n.args[1], env).kind == "DEVICE":
                v = self.ev(n.args[0], env)
                if v.kind in ("ARR", "AREF", "CREF"):
                    return v                                       # CPU path: the same values
            self.err(n, "backend call not understood")
        if b.kind in ("XP", "NP"):
            return self.np_call(a, n, env, kw)
        if b.kind == "MOD":
            return self.lib_call(b.name, a, n, env, kw)
        if b.kind == "SCAL" and a == "conjugate" and not nargs and not kw:
            return V("SCAL", "(conj %s)" % b.term)
        if b.kind == "SCALTAG" and a == "conjugate" and not nargs and not kw:
            return V("SCAL", "(conj (scal %s))" % b.term)
        if b.kind in ("ARR", "AREF", "WIN1", "SUMKEEP"):
            return self.arr_method(b, a, n, env, kw)
        self.err(n, "call not understood")

    def op_call(self, op, n, env, kw):
        """A(x): Linop.__call__ -> __mul__ (ndarray branch) -> apply"""
        if kw or len(n.args) != 1:
            self.err(n, "an operator is called with other than one argument")
        x = self.ev(n.args[0], env)
        return self.method_call(op, "__call__", [x], n)

    def method_call(self, op, name, args, node):
        t = op.term
        if name == "__call__" and len(args) == 1 and args[0].kind in ("ARR", "AREF"):
            x = self.arr(args[0], node)
            return V("ARR", shape=V("ZL", "(oshape_of %s)" % t, seq="list"), data="(gen_Linop_call %s %s)" % (t, x.data))
        if name == "__mul__" and len(args) == 1:
            x = args[0]
            if x.kind == "ARR":
                return V("ARR", shape=V("ZL", "(oshape_of %s)" % t, seq="list"), data="(gen_Linop_mul_array %s %s)" % (t, self.arr(x, node).data))
            if x.kind == "LINOP":
                return V("LINOP", "(gen_Linop_mul_linop %s %s)" % (t, x.term))
            if x.kind == "SCALTAG":
                return V("LINOP", "(gen_Linop_mul_scalar %s %s)" % (t, x.term))
        if name == "__rmul__" and len(args) == 1:
            x = args[0]
            if x.kind == "LIT":
                if x.lit != -1:
                    self.err(node, "a literal scalar other than -1 (the model reserves the scalar tag neg_one_tag for -1 only)")
                x = V("SCALTAG", "neg_one_tag")
            if x.kind == "SCALTAG":
                return V("LINOP", "(gen_Linop_rmul_scalar %s %s)" % (t, x.term))
        if name == "__add__" and len(args) == 1 and args[0].kind == "LINOP":
            return V("LINOP", "(gen_Linop_add %s %s)" % (t, args[0].term))
        if name == "__neg__" and not args:
            return V("LINOP", "(gen_Linop_neg %s)" % t)
        if name == "apply" and len(args) == 1 and args[0].kind == "ARR":
            return V("ARR", shape=V("ZL", "(oshape_of %s)" % t, seq="list"), data="(gen_Linop_apply %s %s)" % (t, args[0].data))
        if name == "_apply" and len(args) == 1 and args[0].kind == "ARR":
            # dynamic dispatch on the class of the operator: the clause of [den] for its constructor
            return V("ARR", shape=V("ZL", "(oshape_of %s)" % t, seq="list"), data="(D %s %s)" % (t, args[0].data))
        if name in ("_check_ishape", "_check_oshape") and len(args) == 1 and args[0].kind == "ARR":
            return V("PRECOND")
        self.err(node, "method %s of an operator with these arguments" % name)

    def helper_call(self, name, n, env, kw):
        nargs = len(n.args)
        if name in PURE_CHECKS:
            for a in n.args:
                self.ev(a, env)
            return V("PRECOND")
        if name == "_combine_compose_linops" and nargs == 1 and not kw:
            v = self.ev(n.args[0], env)
            if v.kind == "LINOPS":
                return V("LINOPS", "(gen_combine_compose_linops %s)" % v.term)
        if name in ("_hstack_params", "_vstack_params") and nargs == 2 and not kw:
            s, ax = self.ev(n.args[0], env), self.ev(n.args[1], env)
            if s.kind == "ZLL":
                # both python functions are the model's stack_params (proofs/ShapesTie.v ties gen_hstack_params / gen_vstack_params)
                return V("TUPCALL", "stack_params %s %s" % (s.term, self.opt(ax, n, "Z")), n=2)
        if name == "_alloc_stack_output" and nargs == 4 and not kw:
            xp, prev, sh, dt = [self.ev(a, env) for a in n.args]
            if xp.kind == "XP" and isinstance(n.args[1], ast.Name) and prev.kind in ("NONE", "OUTBUF") and sh.kind == "ZL" and dt.kind == "DTYPE":
                if prev.kind == "OUTBUF" and prev.shape.term != sh.term:
                    self.err(n, "the stacked output changes shape")
                return V("OUTBUF", shape=sh, dtype_of=dt.of, prevname=n.args[1].id)
        self.err(n, "call of %s not understood" % name)

    def construct(self, cname, n, env, kw):
        spec = CLASSES[cname]
        init = self.mod.methods[cname]["__init__"]
        names = [p for p, _, _ in spec]
        given = {}
        for p, a in zip(names, n.args):
            given[p] = self.ev(a, env)
        if len(n.args) > len(names):
            self.err(n, "too many arguments")
        for k, a in kw.items():
            if k not in names or k in given:
                self.err(n, "bad keyword %s" % k)
            given[k] = self.ev(a, env)
        defaults = dict(zip(names[len(names) - len(init.args.defaults):], init.args.defaults))
        for p in names:
            if p not in given:
                if p not in defaults:
                    self.err(n, "missing argument %s" % p)
                given[p] = self.ev(defaults[p], {})
        sub = Ev(self.mod, cname, self.dec, self.std)
        sub.used = self.used
        sub.where = "%s (constructing %s)" % (self.where, cname)
        e = {"self": V("SELF")}
        for p in names:
            v = given[p]
            if v.kind == "LIT" and cname == "Multiply" and p == "mult":
                self.err(n, "literal multiplier")
            e[p] = v
        sub.run_init(init, e)
        if sub.wrappers:
            self.err(n, "constructor with a partial shape function")
        self.lines += [l for l in sub.lines if l.startswith("(*")]
        at = sub.attrs
        if cname in ("Compose", "Add"):
            v = at.get("linops")
            if v is None or v.kind != "LINOPS":
                self.err(n, "%s.__init__ does not store a list of operators in self.linops" % cname)
            return V("LINOP", "(%s %s)" % (cname, v.term))
        m, c, i = at.get("mult"), at.get("conj"), at.get("ishape")
        if m is None or c is None or i is None or m.kind != "SCALTAG" or c.kind != "B" or i.kind != "ZL":
            self.err(n, "Multiply.__init__ does not store mult / conj / ishape as the model expects")
        return V("LINOP", "(Multiply %s (MScalar %s) %s)" % (i.term, m.term, c.term))

    def np_call(self, a, n, env, kw):
        nargs = len(n.args)
        if a == "conj" and nargs == 1 and not kw:
            x = self.arr(self.ev(n.args[0], env), n)
            capt = None
            if x.capt and x.capt[1] == "false" and x.capt[2] == "false":
                capt = (x.capt[0], "true", "false")
            return V("ARR", shape=x.shape, data="(np_conj %s)" % x.data, capt=capt, origin=x.origin)
        if a == "matmul" and nargs == 2 and not kw:
            p, q = self.ev(n.args[0], env), self.ev(n.args[1], env)
            p = p if p.kind == "ARR" else self.arr(p, n)
            q = q if q.kind == "ARR" else self.arr(q, n)
            if bool(p.capt) == bool(q.capt):
                self.err(n, "xp.matmul other than of the captured matrix and the input")
            right = bool(q.capt)
            m, x = (q, p) if right else (p, q)
            x = self.arr(x, n)
            return V("ARR", shape=None, data="(np_matmul_capt arr %s %s %s %s %s %s)"
                     % ("true" if right else "false", self.shape_term(x, n), m.capt[0], m.capt[1], m.capt[2], x.data))
        if a == "sum" and nargs == 1 and set(kw) == {"axis", "keepdims"}:
            x = self.arr(self.ev(n.args[0], env), n)
            ax, kd = self.ev(kw["axis"], env), self.ev(kw["keepdims"], env)
            if ax.kind == "ZL" and kd.kind == "B" and kd.term == "true":
                return V("SUMKEEP", of=x, axes=ax)
            self.err(n, "xp.sum other than xp.sum(a, axis=<tuple of ints>, keepdims=True)")
        if a == "tile" and nargs == 2 and not kw:
            y, reps = self.ev(n.args[0], env), self.ev(n.args[1], env)
            if y.kind == "ARR" and y.reshaped and reps.kind == "ZL" and reps.axc:
                x0, E = y.reshaped
                S, AX = reps.axc[0], reps.axc[1]
                if E.axc == (S, AX, "one", "dim") and reps.axc == (S, AX, "dim", "one") and x0.shape is not None \
                        and x0.shape.squeeze == (S, AX):
                    return V("ARR", shape=V("ZL", S, seq="list"), data="(np_tile_axes %s %s %s)" % (S, AX, x0.data))
            self.err(n, "xp.tile other than of the input reshaped to 1 at the tiled axes, repeated oshape[d] times there")
        if a == "zeros" and nargs == 1 and set(kw) == {"dtype"}:
            sh, dt = self.ev(n.args[0], env), self.ev(kw["dtype"], env)
            if sh.kind == "ZL" and dt.kind == "DTYPE":
                return V("ZEROS", shape=sh, dtype_of=dt.of)
            self.err(n, "zeros other than zeros(shape, dtype=<array>.dtype)")
        self.err(n, "numpy call not understood")

    def arr_method(self, b, a, n, env, kw):
        nargs = len(n.args)
        if a == "reshape" and nargs == 1 and not kw:
            S = self.ev(n.args[0], env)
            if S.kind != "ZL":
                self.err(n, "reshape to a value of kind %s" % S.kind)
            if b.kind == "SUMKEEP":
                sh = self.shape_term(b.of, n)
                if S.squeeze != (sh, b.axes.term):
                    self.err(n, "keepdims-sum reshaped to something that is not the shape without the summed axes")
                return V("ARR", shape=S, data="(np_sum_squeeze %s %s %s)" % (sh, b.axes.term, b.of.data))
            if b.kind == "WIN1":
                return V("ARR", shape=S, data="(np_flat_window %s %s %s)" % (self.zt(b.start, n), S.term, b.of.data))
            x = self.arr(b, n)
            return V("ARR", shape=S, data="(reshape %s %s %s)" % (self.shape_term(x, n), S.term, x.data), reshaped=(x, S))
        if b.kind in ("SUMKEEP", "WIN1"):
            self.err(n, "only .reshape(..) is understood on this intermediate array")
        if a == "swapaxes" and nargs == 2 and not kw:
            i, j = self.ev(n.args[0], env), self.ev(n.args[1], env)
            x = self.arr(b, n)
            if x.capt and x.capt[2] == "false" and i.kind == "LIT" and j.kind == "LIT" and (i.lit, j.lit) == (-1, -2):
                return V("ARR", shape=None, data=None, capt=(x.capt[0], x.capt[1], "true"), origin=x.origin)
            self.err(n, "swapaxes other than .swapaxes(-1, -2) of the captured matrix")
        if a == "transpose" and nargs == 1 and not kw:
            x = self.arr(b, n)
            ax = self.ev(n.args[0], env)
            return V("ARR", shape=None, data="(np_transpose %s %s %s)" % (self.shape_term(x, n), self.opt(ax, n), x.data))
        if a == "ravel" and nargs == 0 and not kw:
            x = self.arr(b, n)
            return V("RAVEL", of=x)
        self.err(n, "array method not understood")

    # ---- calls into util / block / fourier / interp / conv: the hand models' functions ------------------------------
    def lib_call(self, mod, fname, n, env, kw):
        if (mod, fname) not in LIB:
            self.err(n, "call of %s.%s is not in the translator's table" % (mod, fname))
        want, part, handler = LIB[(mod, fname)]
        fn = self.mod.sib[mod].get(fname)
        if fn is None:
            self.err(n, "sigpy/%s.py no longer defines %s" % (mod, fname))
        sig = self.mod.signature(fn)
        have = ", ".join(nm if d is None else "%s=%s" % (nm, ast.unparse(d)) for nm, d in sig)
        if have != want:
            self.err(n, "signature of %s.%s is (%s), the reading was written for (%s)" % (mod, fname, have, want))
        if part == "std" and not self.std:
            self.err(n, "library-backed call in a class of part den")
        vals = {}
        names = [nm for nm, _ in sig]
        if len(n.args) > len(names):
            self.err(n, "too many arguments")
        for nm, a in zip(names, n.args):
            vals[nm] = self.ev(a, env)
        for k, a in kw.items():
            if k not in names or k in vals:
                self.err(n, "bad keyword %s" % k)
            vals[k] = self.ev(a, env)
        for nm, d in sig:
            if nm not in vals:
                if d is None:
                    self.err(n, "missing argument %s" % nm)
                if isinstance(d, ast.Constant) and isinstance(d.value, float):
                    vals[nm] = V("FLOAT", f=d.value)
                else:
                    vals[nm] = self.ev(d, {})
        return handler(self, vals, n)

    def mode_term(self, v, n):
        if v.kind == "MODE":
            return v.term
        if v.kind == "STR" and v.s in ("full", "valid"):
            return "true" if v.s == "full" else "false"
        self.err(n, "convolution mode of kind %s" % v.kind)

    def code(self, v, kind, n):
        if v.kind != kind:
            self.err(n, "a parameter of kind %s where the code of a %s is expected (a literal default has no code)" % (v.kind, kind))
        return v.term

    def cref(self, v, n):
        if v.kind != "CREF":
            self.err(n, "coordinates that are not the captured coordinate array")
        return v.term


def _res2(term):
    return "(match %s with Ok (_, y) => y | Err _ => fun _ => zero end)" % term


def _lib_resize(ev, a, n):
    x = ev.arr(a["input"], n)
    osh = a["oshape"]
    return V("ARR", shape=osh, data="(resize %s %s %s %s %s)" % (ev.shape_term(x, n), ev.zl(osh, n), ev.opt(a["ishift"], n), ev.opt(a["oshift"], n), x.data))


def _lib_flip(ev, a, n):
    x = ev.arr(a["input"], n)
    return V("ARR", shape=x.shape, data="(flip %s %s %s)" % (ev.shape_term(x, n), ev.opt(a["axes"], n), x.data))


def _lib_circshift(ev, a, n):
    x = ev.arr(a["input"], n)
    return V("ARR", shape=x.shape, data="(circshift %s %s %s %s)" % (ev.shape_term(x, n), ev.zl(a["shifts"], n), ev.opt(a["axes"], n), x.data))


def _lib_downsample(ev, a, n):
    x = ev.arr(a["input"], n)
    return V("ARR", shape=None, data="(downsample %s %s %s %s)" % (ev.shape_term(x, n), ev.zl(a["factors"], n), ev.opt(a["shift"], n), x.data))


def _lib_upsample(ev, a, n):
    x = ev.arr(a["input"], n)           # the hand model of upsample does not look at the input's shape
    return V("ARR", shape=a["oshape"], data="(upsample %s %s %s %s)" % (ev.zl(a["oshape"], n), ev.zl(a["factors"], n), ev.opt(a["shift"], n), x.data))


def _lib_a2b(ev, a, n):
    x = ev.arr(a["input"], n)
    return V("ARR", shape=None, data=_res2("array_to_blocks %s %s %s %s" % (ev.shape_term(x, n), ev.zl(a["blk_shape"], n), ev.zl(a["blk_strides"], n), x.data)))


def _lib_b2a(ev, a, n):
    x = ev.arr(a["input"], n)
    return V("ARR", shape=a["oshape"], data="(match blocks_to_array %s %s %s %s %s with Ok y => y | Err _ => fun _ => zero end)"
             % (ev.shape_term(x, n), ev.zl(a["oshape"], n), ev.zl(a["blk_shape"], n), ev.zl(a["blk_strides"], n), x.data))


def _lib_fft(inverse):
    def h(ev, a, n):
        x = ev.arr(a["input"], n)
        nm = a["norm"]
        if nm.kind == "STR" and nm.s == "ortho":
            ortho = "true"
        elif nm.kind == "NONE":
            ortho = "false"
        else:
            ev.err(n, "norm other than 'ortho' / None")
        return V("ARR", shape=None, data="(snd (fft_model (e_tw E) (e_isc E) (e_inv E) %s %s %s %s %s %s %s))"
                 % (inverse, ev.bt(a["center"], n), ortho, ev.shape_term(x, n), ev.opt(a["oshape"], n), ev.opt(a["axes"], n), x.data))
    return h


NUFFT_ENV = "R C (e_kb E) (e_wt E) (e_csqrt E) (e_cpi E) (e_csinh E) (e_tw E) (e_isc E) (e_inv E)"


def _lib_nufft(ev, a, n):
    x = ev.arr(a["input"], n)
    c = ev.cref(a["coord"], n)
    return V("ARR", shape=None, data=_res2("nufft %s %s (ashape_of %s) (e_carr E (atag %s)) (e_pv E %s) (e_pv E %s) %s"
             % (NUFFT_ENV, ev.shape_term(x, n), c, c, ev.code(a["oversamp"], "PCODE", n), ev.code(a["width"], "PCODE", n), x.data)))


def _lib_nufft_adjoint(ev, a, n):
    x = ev.arr(a["input"], n)
    c = ev.cref(a["coord"], n)
    return V("ARR", shape=a["oshape"], data=_res2("nufft_adjoint %s %s (ashape_of %s) %s (e_carr E (atag %s)) (e_pv E %s) (e_pv E %s) %s"
             % (NUFFT_ENV, ev.shape_term(x, n), c, ev.zl(a["oshape"], n), c, ev.code(a["oversamp"], "PCODE", n), ev.code(a["width"], "PCODE", n), x.data)))


def _lib_interpolate(ev, a, n):
    x = ev.arr(a["input"], n)
    c = ev.cref(a["coord"], n)
    return V("ARR", shape=None, data=_res2("interpolate R C (e_kern_of E %s) (e_wt E) %s (ashape_of %s) (e_carr E (atag %s)) (e_wp E %s) (e_wp E %s) %s"
             % (ev.code(a["kernel"], "KCODE", n), ev.shape_term(x, n), c, c, ev.code(a["width"], "WCODE", n), ev.code(a["param"], "WCODE", n), x.data)))


def _lib_gridding(ev, a, n):
    x = ev.arr(a["input"], n)
    c = ev.cref(a["coord"], n)
    return V("ARR", shape=a["shape"], data="(match gridding R C (e_kern_of E %s) (e_wt E) %s (ashape_of %s) %s (e_carr E (atag %s)) (e_wp E %s) (e_wp E %s) %s with Ok y => y | Err _ => fun _ => zero end)"
             % (ev.code(a["kernel"], "KCODE", n), ev.shape_term(x, n), c, ev.zl(a["shape"], n), c, ev.code(a["width"], "WCODE", n), ev.code(a["param"], "WCODE", n), x.data))


def _lib_convolve(ev, a, n):
    d, f = ev.arr(a["data"], n), ev.arr(a["filt"], n)
    return V("ARR", shape=None, data=_res2("convolve %s %s %s %s %s %s %s" % (ev.shape_term(d, n), ev.shape_term(f, n), ev.mode_term(a["mode"], n),
             ev.opt(a["strides"], n), ev.bt(a["multi_channel"], n), d.data, f.data)))


def _lib_conv_adj(fname, second, shape_arg):
    def h(ev, a, n):
        o, s = ev.arr(a["output"], n), ev.arr(a[second], n)
        return V("ARR", shape=a[shape_arg], data=_res2("%s %s %s %s %s %s %s %s %s" % (fname, ev.shape_term(o, n), ev.shape_term(s, n), ev.zl(a[shape_arg], n),
                 ev.mode_term(a["mode"], n), ev.opt(a["strides"], n), ev.bt(a["multi_channel"], n), o.data, s.data)))
    return h


# (module, function) -> (the signature the reading was written for, part, handler)
LIB = {
    ("util", "resize"): ("input, oshape, ishift=None, oshift=None", "den", _lib_resize),
    ("util", "flip"): ("input, axes=None", "den", _lib_flip),
    ("util", "circshift"): ("input, shifts, axes=None", "den", _lib_circshift),
    ("util", "downsample"): ("input, factors, shift=None", "den", _lib_downsample),
    ("util", "upsample"): ("input, oshape, factors, shift=None", "den", _lib_upsample),
    ("block", "array_to_blocks"): ("input, blk_shape, blk_strides", "den", _lib_a2b),
    ("block", "blocks_to_array"): ("input, oshape, blk_shape, blk_strides", "den", _lib_b2a),
    ("fourier", "fft"): ("input, oshape=None, axes=None, center=True, norm='ortho'", "std", _lib_fft("false")),
    ("fourier", "ifft"): ("input, oshape=None, axes=None, center=True, norm='ortho'", "std", _lib_fft("true")),
    ("fourier", "nufft"): ("input, coord, oversamp=1.25, width=4", "std", _lib_nufft),
    ("fourier", "nufft_adjoint"): ("input, coord, oshape=None, oversamp=1.25, width=4", "std", _lib_nufft_adjoint),
    ("interp", "interpolate"): ("input, coord, kernel='spline', width=2, param=1", "std", _lib_interpolate),
    ("interp", "gridding"): ("input, coord, shape, kernel='spline', width=2, param=1", "std", _lib_gridding),
    ("conv", "convolve"): ("data, filt, mode='full', strides=None, multi_channel=False", "std", _lib_convolve),
    ("conv", "convolve_data_adjoint"): ("output, filt, data_shape, mode='full', strides=None, multi_channel=False", "std",
                                        _lib_conv_adj("convolve_data_adjoint", "filt", "data_shape")),
    ("conv", "convolve_filter_adjoint"): ("output, data, filt_shape, mode='full', strides=None, multi_channel=False", "std",
                                          _lib_conv_adj("convolve_filter_adjoint", "data", "filt_shape")),
}


# ---------------------------------------------------------------------------------------------------------------
# statements, loops, __init__   (methods of Ev, attached below)
# ---------------------------------------------------------------------------------------------------------------
class _Stmts:
    def bind(self, env, name, v, node):
        if v.kind in ("ACCSUM", "SLICE", "DTYPE", "TUPCALL", "PRECOND", "XP0"):
            self.err(node, "a value of kind %s is assigned to a variable here" % v.kind)
        if v.kind == "ARR" and v.data is not None and not re.fullmatch(r"[A-Za-z_][A-Za-z0-9_']*", v.data):
            v = v.but(data=self.let(name, v.data, node))
        env[name] = v

    def same_array(self, a, b):
        return a is b or (a is not None and b is not None and a.kind == "ARR" and b.kind == "ARR" and a.data is not None and a.data == b.data)

    def assign(self, s, env):
        if len(s.targets) != 1:
            self.err(s, "multiple assignment targets")
        t = s.targets[0]
        if isinstance(t, ast.Name):
            v = self.ev(s.value, env)
            if v.kind == "OUTBUF":
                if v.prevname != t.id:
                    self.err(s, "_alloc_stack_output is not assigned back to the buffer it was given")
                self.note(s, "the stacked output (fresh on the first block, promoted to a common dtype later, blocks written so far kept); "
                             "dtype promotion is outside the value model")
            self.bind(env, t.id, v, s)
            return
        if isinstance(t, ast.Attribute) and isinstance(t.value, ast.Name) and t.value.id == "self":
            if not self.init_mode:
                self.err(s, "_apply stores an attribute of the operator (the model's operators are immutable)")
            v = self.ev(s.value, env)
            if v.kind in ("ACCSUM", "SLICE", "DTYPE", "TUPCALL", "PRECOND"):
                self.err(s, "a value of kind %s is stored in an attribute" % v.kind)
            self.attrs[t.attr] = v
            return
        if isinstance(t, ast.Tuple):
            v = self.ev(s.value, env)
            if v.kind != "TUPCALL" or len(t.elts) != v.n:
                self.err(s, "tuple assignment other than from _hstack_params / _vstack_params")
            names = []
            for e, hint in zip(t.elts, ("shape", "indices")):
                if isinstance(e, ast.Name):
                    nm = self.fresh(e.id)
                    env[e.id] = V("ZL", nm, atom=True, seq="list", stack=v.term)
                elif isinstance(e, ast.Attribute) and isinstance(e.value, ast.Name) and e.value.id == "self" and self.init_mode:
                    nm = self.fresh(e.attr)
                    self.attrs[e.attr] = V("ZL", nm, atom=True, seq="list", stack=v.term)
                else:
                    self.err(s, "tuple assignment target not understood")
                names.append(nm)
            # a shape function that raises = the constructor raises: no object; the model's value convention is the zero array
            self.wrappers.append(("match %s with   (* L%d: %s *)\n| Err _ => fun _ => zero\n| Ok (%s, %s) =>"
                                  % (v.term, s.lineno, san(ast.unparse(s))[:150], names[0], names[1]), "end"))
            return
        if isinstance(t, ast.Subscript) and isinstance(t.value, ast.Name) and t.value.id in env:
            return self.array_write(s, t, env)
        self.err(s, "assignment target not understood")

    def array_write(self, s, t, env):
        out = env[t.value.id]
        rhs = self.ev(s.value, env)
        if out.kind == "ZEROS":
            i = self.ev(t.slice, env)
            if i.kind != "IDX" or rhs.kind != "ARR" or not self.same_array(out.dtype_of, rhs):
                self.err(s, "write into a zero array other than zeros(shape, dtype=input.dtype)[self.idx] = input")
            env[t.value.id] = V("ARR", shape=out.shape, data=self.let(t.value.id, "(np_zeros_setitem %s %s %s)" % (out.shape.term, i.term, rhs.data), s))
            return
        if out.kind == "OUTBUF" and self.loopctx is not None:
            ctx = self.loopctx
            if ctx.get("write") or ctx.get("acc"):
                self.err(s, "a second write into the stacked output in one iteration")
            lv = ctx["loopvar"]
            osh = out.shape.term
            if isinstance(t.slice, ast.Slice):
                if t.slice.step is not None or t.slice.lower is None or t.slice.upper is None:
                    self.err(s, "write through a slice other than [start:end]")
                st, en = self.ev(t.slice.lower, env), self.ev(t.slice.upper, env)
                if rhs.kind != "RAVEL" or not self.same_array(out.dtype_of, rhs.of):
                    self.err(s, "flattened write other than output[start:end] = output_n.ravel() (C order) of the block the buffer was allocated for")
                k = "match o with k :: _ => k | [] => 0 end"
                val = "%s (unravel %s (k - %s))" % (rhs.of.data, self.shape_term(rhs.of, s), self.zt(st, s))
                closing = "getZ %s 0" % osh
            else:
                i = self.ev(t.slice, env)
                if i.kind != "SLL":
                    self.err(s, "write through an index of kind %s" % i.kind)
                ax, sl = self.slcax(i, s)
                if sl.step is not None or sl.start is None or sl.stop is None:
                    self.err(s, "write through a slice other than slice(start, end)")
                st, en = sl.start, sl.stop
                if rhs.kind != "ARR" or not self.same_array(out.dtype_of, rhs):
                    self.err(s, "block write other than output[slc] = output_n of the block the buffer was allocated for")
                k = "getZ o %s" % ax
                val = "%s (mapi (fun d kk => if d =? %s then kk - %s else kk) o)" % (rhs.data, ax, self.zt(st, s))
                # the stop of the last block is None = the end of the stacked axis of the output: the blocks have the rank of
                # the stacked shape (_vstack_params rejects other ranks), so the axis number is taken modulo that rank
                axc = ax.replace("(oshape_of %s)" % lv, osh)
                if lv in re.findall(r"[A-Za-z_][A-Za-z0-9_']*", axc):
                    self.err(s, "the stacked axis depends on the block in a way the translator does not read")
                closing = "getZ %s %s" % (osh, axc)
            if st.kind != "STREAM" or st.skind != "start" or en.kind != "STREAM" or en.skind != "end":
                self.err(s, "write whose bounds are not the split points start / end of this block")
            ctx["write"] = dict(k=k, val=val, start=self.zt(st, s), end=self.zt(en, s), closing=closing, endname=en.pyname, node=s)
            return
        self.err(s, "write into a value of kind %s" % out.kind)

    # ---- statement lists ------------------------------------------------------------------------------------------
    def run(self, stmts, env):
        """-> the returned value, or None when the list ends without return"""
        stmts = list(stmts)
        while stmts:
            s = stmts.pop(0)
            if self.loopctx is not None and (self.loopctx.get("write") or self.loopctx.get("acc")):
                self.err(s, "statement after the update of the loop's result")
            if self.init_mode:
                r = self.init_stmt(s, stmts, env)
            else:
                r = self.stmt(s, stmts, env)
            if r is not None:
                return r
        return None

    def stmt(self, s, rest, env):
        if isinstance(s, ast.Pass) or (isinstance(s, ast.Expr) and isinstance(s.value, ast.Constant) and isinstance(s.value.value, str)):
            return None
        if isinstance(s, ast.Expr) and isinstance(s.value, ast.Call):
            v = self.ev(s.value, env)
            if v.kind != "PRECOND":
                self.err(s, "expression statement other than a shape check")
            self.note(s, "a check that only raises: inputs on which it fails are outside the model")
            return None
        if isinstance(s, ast.Assign):
            if self.loopctx is not None and self.loop_update(s, env):
                return None
            self.assign(s, env)
            return None
        if isinstance(s, ast.Return):
            if s.value is None:
                self.err(s, "return without a value")
            if self.loopctx is not None:
                self.err(s, "return inside a loop")
            return self.ev(s.value, env)
        if isinstance(s, ast.If):
            # `if self.mult == 1: return input`: the identity fast path of a scalar multiply (x * 1 = x)
            if isinstance(s.test, ast.Compare) and ast.unparse(s.test) == "self.mult == 1" and not s.orelse and len(s.body) == 1 \
                    and isinstance(s.body[0], ast.Return) and isinstance(s.body[0].value, ast.Name) \
                    and env.get(s.body[0].value.id) is env.get("input") and self.cname == "Multiply" \
                    and self.self_attr("mult", s).kind == "SCALTAG":
                self.note(s, "fast path of the scalar branch, same values as input * 1 (the model multiplies by scal t also when it is 1)")
                return None
            c = self.test(s.test, env)
            rest[:0] = list(s.body if c else s.orelse)
            return None
        if isinstance(s, ast.With):
            if len(s.items) != 1 or s.items[0].optional_vars is not None or self.ev(s.items[0].context_expr, env).kind != "DEVICE":
                self.err(s, "`with` other than `with <device>:`")
            rest[:0] = list(s.body)
            return None
        if isinstance(s, ast.For):
            self.run_for(s, env)
            return None
        if isinstance(s, ast.Try):
            h = s.handlers
            if s.orelse or s.finalbody or len(h) != 1 or not (isinstance(h[0].type, ast.Name) and h[0].type.id == "Exception") \
                    or len(h[0].body) != 1 or not isinstance(h[0].body[0], ast.Raise):
                self.err(s, "try other than try: ... except Exception as e: raise ... from e")
            rest[:0] = list(s.body)
            return None
        if isinstance(s, ast.Raise):
            self.err(s, "this path raises")
        self.err(s, "statement form not understood (%s)" % type(s).__name__)

    # ---- loops ----------------------------------------------------------------------------------------------------
    def loop_update(self, s, env):
        """output = output + <array>   inside an accumulate loop"""
        ctx = self.loopctx
        if len(s.targets) == 1 and isinstance(s.targets[0], ast.Name) and isinstance(s.value, ast.BinOp) and isinstance(s.value.op, ast.Add) \
                and isinstance(s.value.left, ast.Name) and s.value.left.id == s.targets[0].id:
            cur = env.get(s.targets[0].id)
            if cur is not None and cur.kind == "LIT" and cur.lit == 0:
                v = self.ev(s.value, env)
                if v.kind != "ACCSUM":
                    self.err(s, "accumulation of something that is not an array")
                if ctx.get("write") or ctx.get("acc"):
                    self.err(s, "two updates of the loop's result in one iteration")
                ctx["acc"] = dict(name=s.targets[0].id, term=v.term_arr.data, node=s)
                return True
        return False

    def run_for(self, s, env):
        if s.orelse:
            self.err(s, "for-else")
        if self.loopctx is not None:
            self.err(s, "nested loop")
        it = s.iter
        if isinstance(it, ast.Call) and isinstance(it.func, ast.Name) and it.func.id == "enumerate" and len(it.args) == 1 and not it.keywords:
            L = self.ev(it.args[0], env)
            if L.kind != "LINOPS" or not (isinstance(s.target, ast.Tuple) and len(s.target.elts) == 2 and all(isinstance(e, ast.Name) for e in s.target.elts)):
                self.err(s, "enumerate loop other than `for n, linop in enumerate(<list of operators>)`")
            return self.loop_enum(s, env, L, s.target.elts[0].id, s.target.elts[1].id)
        rev = False
        if isinstance(it, ast.Subscript) and isinstance(it.slice, ast.Slice) and it.slice.lower is None and it.slice.upper is None \
                and it.slice.step is not None and ast.unparse(it.slice.step) == "-1":
            rev, it = True, it.value
        L = self.ev(it, env)
        if L.kind != "LINOPS" or not isinstance(s.target, ast.Name):
            self.err(s, "loop other than over a list of operators")
        if len(s.body) != 1 or not isinstance(s.body[0], ast.Assign) or len(s.body[0].targets) != 1 or not isinstance(s.body[0].targets[0], ast.Name):
            self.err(s, "loop body other than one assignment to the loop's result")
        st = s.body[0]
        var = st.targets[0].id
        cur = env.get(var)
        lv = self.fresh(s.target.id + "_it")
        inp = env.get("input")
        if cur is not None and cur.kind == "LIT" and cur.lit == 0 and not rev:
            # output = 0; for A in L: output = output + <term(A, input)>   ->   the sum of the terms (hand shape: fix go l x o)
            e = dict(env)
            e[s.target.id] = V("LINOP", lv)
            for k, v in env.items():
                if v is inp:
                    e[k] = inp.but(data="x")
            saved, self.lines = self.lines, []
            self.loopctx = dict(loopvar=lv, used=set())
            self.stmt(st, [], e)
            ctx, body, self.lines, self.loopctx = self.loopctx, self.lines, saved, None
            if not ctx.get("acc"):
                self.err(st, "loop body is not `output = output + <array>`")
            term = "((fix go (l : list linop) (x : farr) (o : list Z) : R :=   (* L%d: %s *)\n  match l with\n  | [] => zero\n  | %s :: l' =>\n%s\n    add (%s o) (go l' x o)\n  end) %s %s)" \
                % (s.lineno, san(ast.unparse(s.iter)), lv, "\n".join("    " + b for b in body), ctx["acc"]["term"], L.term, inp.data)
            env[var] = V("ARR", shape=None, data=self.let(var, term, s))
            env[s.target.id] = V("DEAD")
            return
        if cur is not None and cur.kind == "ARR":
            # output = x0; for A in L[::-1]: output = f(A, output)   ->   right fold (hand shape: fix go l x); forward: left fold
            e = dict(env)
            e[s.target.id] = V("LINOP", lv)
            e[var] = cur.but(data="(go l' x)" if rev else "x")
            saved, self.lines = self.lines, []
            v = self.ev(st.value, e)
            body, self.lines = self.lines, saved
            if v.kind != "ARR" or v.data is None:
                self.err(st, "loop body does not produce an array")
            step = v.data if rev else "go l' %s" % v.data
            term = "((fix go (l : list linop) (x : farr) : farr :=   (* L%d: for .. in %s *)\n  match l with\n  | [] => x\n  | %s :: l' =>\n%s\n    %s\n  end) %s %s)" \
                % (s.lineno, san(ast.unparse(s.iter)), lv, "\n".join("    " + b for b in body), step, L.term, cur.data)
            env[var] = V("ARR", shape=None, data=self.let(var, term, s))
            env[s.target.id] = V("DEAD")
            return
        self.err(s, "loop whose result variable is neither `output = 0` (a sum) nor an array (a chain)")

    def stream_def(self, s, nname, L, env):
        """if n == 0: a = 0 else: a = IDX[n - 1]      /      if n == self.nops - 1: b = None else: b = IDX[n]
        -> [(python name, 'start' | 'end', IDX value)] or None"""
        if not isinstance(s, ast.If) or not isinstance(s.test, ast.Compare) or len(s.test.ops) != 1 or not isinstance(s.test.ops[0], ast.Eq) \
                or not (isinstance(s.test.left, ast.Name) and s.test.left.id == nname):
            return None
        rhs = s.test.comparators[0]
        if isinstance(rhs, ast.Constant) and rhs.value == 0:
            kind, const, idxpat = "start", 0, "%s - 1" % nname
        elif isinstance(rhs, ast.BinOp) and isinstance(rhs.op, ast.Sub) and isinstance(rhs.right, ast.Constant) and rhs.right.value == 1:
            cnt = self.ev(rhs.left, env)
            if cnt.kind != "Z" or cnt.lenof != L.term:
                self.err(s, "the last iteration is not recognised by n == len(<the list iterated>) - 1")
            kind, const, idxpat = "end", None, nname
        else:
            self.err(s, "test on the loop counter other than n == 0 / n == self.nops - 1")
        out = []
        if len(s.body) != len(s.orelse) or not s.body:
            self.err(s, "split-point definition whose branches differ")
        for a, b in zip(s.body, s.orelse):
            ok = isinstance(a, ast.Assign) and isinstance(b, ast.Assign) and len(a.targets) == 1 and len(b.targets) == 1 \
                and isinstance(a.targets[0], ast.Name) and isinstance(b.targets[0], ast.Name) and a.targets[0].id == b.targets[0].id \
                and isinstance(a.value, ast.Constant) and a.value.value == const and not isinstance(a.value.value, bool) \
                and isinstance(b.value, ast.Subscript) and ast.unparse(b.value.slice) == idxpat
            if not ok:
                self.err(s, "split-point definition other than `x = %s` / `x = <indices>[%s]`" % (const, idxpat))
            idx = self.ev(b.value.value, env)
            if idx.kind != "ZL" or not idx.stack:
                self.err(s, "split points that are not the indices computed by _hstack_params / _vstack_params")
            out.append((a.targets[0].id, kind, idx))
        return out

    def loop_enum(self, s, env, L, nname, vname):
        body = list(s.body)
        streams = []
        while body:
            d = self.stream_def(body[0], nname, L, env) if isinstance(body[0], ast.If) and isinstance(body[0].test, ast.Compare) \
                and isinstance(body[0].test.left, ast.Name) and body[0].test.left.id == nname else None
            if d is None:
                break
            streams += d
            body.pop(0)
        names = [p for p, _, _ in streams]
        if len(set(names)) != len(names):
            self.err(s, "a split point is defined twice")
        lv = self.fresh(vname + "_it")
        e = dict(env)
        e[vname] = V("LINOP", lv)
        e[nname] = V("DEAD")
        for p, kind, idx in streams:
            e[p] = V("STREAM", self.fresh(p + "_it"), skind=kind, idx=idx, pyname=p)
        saved, self.lines = self.lines, []
        self.loopctx = dict(loopvar=lv, used=set())
        r = self.run(body, e)
        ctx, blines, self.lines, self.loopctx = self.loopctx, self.lines, saved, None
        if r is not None:
            self.err(s, "return inside a loop")
        used = [(p, kind, idx) for p, kind, idx in streams if p in ctx["used"]]
        lists = [e[p].term[:-3] + "_s" if e[p].term.endswith("_it") else e[p].term + "_s" for p, _, _ in used]
        elems = [e[p].term for p, _, _ in used]
        inits = []
        for p, kind, idx in used:
            if kind == "start":
                inits.append("(starts_of %s)" % idx.term)
            else:
                w = ctx.get("write")
                if not w or w["endname"] != p:
                    self.err(s, "the stop `%s` of a block is used other than as the stop of the block's write" % p)
                inits.append("(%s ++ [%s])" % (idx.term, w["closing"]))
        rec = "go l' %s o" % " ".join(x + "'" for x in lists) if lists else "go l' o"
        if ctx.get("acc"):
            var = ctx["acc"]["name"]
            upd = "add (%s o) (%s)" % (ctx["acc"]["term"], rec)
        elif ctx.get("write"):
            w = ctx["write"]
            var = w["node"].targets[0].value.id
            # element o of the stacked output: the block whose range [start, end) holds its coordinate (the ranges are disjoint:
            # the model takes the first, python's successive writes the last); cells no block writes are zero in the model
            upd = "let k := %s in\n    if (%s <=? k) && (k <? %s) then %s else %s" % (w["k"], w["start"], w["end"], w["val"], rec)
        else:
            self.err(s, "the loop neither accumulates into `output` nor writes a block of it")
        pat = ", ".join(["%s :: l'" % lv] + ["%s :: %s'" % (a, b) for a, b in zip(elems, lists)])
        scrut = ", ".join(["l"] + lists)
        wild = ", ".join(["_"] * (1 + len(lists)))
        binders = "".join(" (%s : list Z)" % x for x in lists)
        term = "((fix go (l : list linop)%s (o : list Z) : R :=   (* L%d: for %s in %s *)\n  match %s with\n  | %s =>\n%s\n    %s\n  | %s => zero\n  end) %s%s)" \
            % (binders, s.lineno, san(ast.unparse(s.target)), san(ast.unparse(s.iter)), scrut, pat, "\n".join("    " + b for b in blines), upd,
               wild, L.term, "".join(" " + i for i in inits))
        env[var] = V("ARR", shape=None, data=self.let(var, term, s))
        env[vname] = V("DEAD")
        for p in names:
            env[p] = V("DEAD")

    # ---- __init__ -------------------------------------------------------------------------------------------------
    def poison_stores(self, s, env, why):
        for t in stores(s):
            if t.startswith("self."):
                self.attrs[t[5:]] = poison(why)
            else:
                env[t] = poison(why)

    def init_stmt(self, s, rest, env):
        """__init__ is read as far as the translator can: what it cannot read is poisoned (and fails closed when _apply reads it)"""
        try:
            if isinstance(s, ast.Pass) or (isinstance(s, ast.Expr) and isinstance(s.value, ast.Constant)):
                return None
            if isinstance(s, ast.If):
                c = self.test(s.test, env)
                rest[:0] = list(s.body if c else s.orelse)
                return None
            if isinstance(s, ast.For):
                self.init_for(s, env)
                return None
            if isinstance(s, ast.Expr) and isinstance(s.value, ast.Call):
                v = self.ev(s.value, env)
                if v.kind == "PRECOND":
                    self.note(s, "a check that only raises: arguments on which it fails build no object")
                elif v.kind != "NONEVAL":
                    raise TranslationError("expression statement")
                return None
            if isinstance(s, ast.Assign):
                self.assign(s, env)
                return None
            raise TranslationError("statement form %s" % type(s).__name__)
        except Undecided:
            raise
        except TranslationError as e:
            self.poison_stores(s, env, "line %d: %s" % (s.lineno, str(e)[:200]))
            return None

    def init_for(self, s, env):
        """for d in range(len(S)): if d in AX: a.append(1); b.append(S[d]) else: a.append(S[d]); b.append(1)"""
        ok = isinstance(s.target, ast.Name) and not s.orelse and isinstance(s.iter, ast.Call) and ast.unparse(s.iter.func) == "range" \
            and len(s.iter.args) == 1 and isinstance(s.iter.args[0], ast.Call) and ast.unparse(s.iter.args[0].func) == "len" \
            and len(s.iter.args[0].args) == 1 and len(s.body) == 1 and isinstance(s.body[0], ast.If)
        if not ok:
            raise TranslationError("loop form")
        d = s.target.id
        Snode = s.iter.args[0].args[0]
        S = self.ev(Snode, env)
        test = s.body[0].test
        if not (isinstance(test, ast.Compare) and len(test.ops) == 1 and isinstance(test.ops[0], ast.In) and isinstance(test.left, ast.Name)
                and test.left.id == d) or S.kind != "ZL":
            raise TranslationError("loop test")
        AX = self.ev(test.comparators[0], env)
        if AX.kind != "ZL":
            raise TranslationError("loop test")

        def branch(stmts):
            out = {}
            for st in stmts:
                if not (isinstance(st, ast.Expr) and isinstance(st.value, ast.Call) and isinstance(st.value.func, ast.Attribute)
                        and st.value.func.attr == "append" and len(st.value.args) == 1 and not st.value.keywords):
                    raise TranslationError("loop body")
                tgt = ast.unparse(st.value.func.value)
                a = st.value.args[0]
                if isinstance(a, ast.Constant) and a.value == 1 and not isinstance(a.value, bool):
                    kind = "one"
                elif isinstance(a, ast.Subscript) and ast.dump(a.value) == ast.dump(Snode) and isinstance(a.slice, ast.Name) and a.slice.id == d:
                    kind = "dim"
                else:
                    raise TranslationError("appended element")
                if tgt in out:
                    raise TranslationError("two appends to one list")
                out[tgt] = kind
            return out
        A, B = branch(s.body[0].body), branch(s.body[0].orelse)
        if set(A) != set(B) or not A:
            raise TranslationError("branches append to different lists")
        for tgt in A:
            cur = self.attrs.get(tgt[5:]) if tgt.startswith("self.") else env.get(tgt)
            if cur is None or cur.kind != "ZL" or cur.items != []:
                raise TranslationError("append to something that is not an empty list")
            tm = {"one": "1", "dim": "n"}
            v = V("ZL", "(mapi (fun d n => if memZ d %s then %s else %s) %s)" % (AX.term, tm[A[tgt]], tm[B[tgt]], S.term),
                  seq="list", axc=(S.term, AX.term, A[tgt], B[tgt]))
            if tgt.startswith("self."):
                self.attrs[tgt[5:]] = v
            else:
                env[tgt] = v

    def run_init(self, init, env):
        self.init_mode = True
        r = self.run(strip_doc(init), env)
        self.init_mode = False
        if r is not None:
            self.err(init, "__init__ returns a value")
        for k in ("oshape", "ishape"):
            if k not in self.attrs:
                self.attrs[k] = poison("super().__init__ was not reached")

    # ---- one class: _apply on the object __init__ builds ------------------------------------------------------------
    def class_apply(self):
        spec = CLASSES[self.cname]
        ms = self.mod.methods[self.cname]
        env = {"self": V("SELF")}
        for p, m, kind in spec:
            self.used.add(m)
            env[p] = param_value(kind, m)
        self.used |= {"input", "self"}
        self.run_init(ms["__init__"], env)
        for c, a in ATTR_DIRECT:
            if c == self.cname:
                if a not in self.attrs or self.attrs[a].kind != "LINOPS":
                    self.err(ms["__init__"], "self.%s is not a list of operators" % a)
                self.attrs[a] = V("LINOPS", a)
        ish = self.attrs["ishape"]
        if ish.kind == "POISON" or self.cname in INPUT_SHAPE_FROM_MODEL:
            ish = V("ZL", "(ishape_of %s)" % self.self_term(), seq="list")
        inp = V("ARR", shape=ish, data="input", origin="input")
        fn = ms["_apply"]
        self.lines.append("(* _apply  (linop.py line %d); input.shape = self.ishape *)" % fn.lineno)
        r = self.run(strip_doc(fn), {"self": V("SELF"), "input": inp})
        if r is None:
            self.err(fn, "a path of _apply ends without return")
        x = self.arr(r, fn) if r.kind in ("ARR", "AREF") else self.err(fn, "_apply returns a value of kind %s" % r.kind)
        text = "\n".join(self.lines + [x.data])
        for op, cl in reversed(self.wrappers):
            text = op + "\n" + "\n".join("  " + t for t in text.split("\n")) + "\n" + cl
        return text


for _k, _v in list(vars(_Stmts).items()):
    if callable(_v):
        setattr(Ev, _k, _v)


def param_value(kind, name):
    if kind == "ZL":
        return V("ZL", name, atom=True, seq="any")
    if kind == "OL":
        return V("OPT", name, inner="ZL")
    if kind == "OZ":
        return V("OPT", name, inner="Z")
    if kind == "B":
        return V("B", name, flag=True)
    return V(kind, name)


def branch(key, a, b):
    if a == b:
        return a
    ind = lambda t: "\n".join("  " + x for x in t.split("\n"))
    what, x = key
    if what == "none":
        return "match %s with\n| None =>\n%s\n| Some %s_given =>\n%s\nend" % (x, ind(a), x, ind(b))
    if what == "flag":
        return "if %s then (\n%s\n) else (\n%s\n)" % (x, ind(a), ind(b))
    if what == "isscalar":
        return "match %s with\n| MScalar %s_tag =>\n%s\n| MArray %s_ref =>\n%s\nend" % (x, x, ind(a), x, ind(b))
    raise TranslationError("internal: decision %s" % (key,))


def decision_tree(run_path):
    def path(dec):
        if len(dec) > 6:
            raise TranslationError("too many attribute tests on one path")
        try:
            return run_path(dec)
        except Undecided as u:
            if u.key in dec:
                raise TranslationError("internal: undecidable test %s" % (u.key,))
            a = path(dict(dec, **{}) | {u.key: True})
            b = path(dict(dec) | {u.key: False})
            return branch(u.key, a, b)
    return path({})


def class_def(mod, cname, std):
    spec = CLASSES[cname]
    text = decision_tree(lambda dec: Ev(mod, cname, dec, std).class_apply())
    binders = " ".join("(%s : %s)" % (m, COQTYPE[k]) for _, m, k in spec)
    names = " ".join(m for _, m, _ in spec)
    fn = mod.methods[cname]["_apply"]
    out = ["  (* %s._apply  (linop.py line %d), on the object %s.__init__ (line %d) builds *)" % (cname, fn.lineno, cname, mod.methods[cname]["__init__"].lineno),
           "  Definition gen_apply_%s %s (input : farr) : farr :=\n%s." % (cname, binders, "\n".join("    " + t for t in text.split("\n"))),
           "  Lemma gen_apply_%s_ok : forall %s (input : farr), gen_apply_%s %s input = D (%s %s) input.\n  Proof. intros. unfold gen_apply_%s. tie. Qed.\n"
           % (cname, binders, cname, names, cname, names, cname)]
    return "\n".join(out)


def base_method(mod, name, env, want):
    fn = mod.methods["Linop"].get(name)
    if fn is None:
        raise TranslationError("Linop.%s missing" % name)
    a = fn.args
    if a.vararg or a.kwarg or a.kwonlyargs or a.defaults or [x.arg for x in a.args] != ["self"] + [k for k in env if k != "self"]:
        raise TranslationError("Linop.%s: signature not understood" % name)

    def run_path(dec):
        ev = Ev(mod, None, dec, False)
        ev.where = "Linop.%s" % name
        ev.used |= {"self", "input"}
        r = ev.run(strip_doc(fn), dict(env))
        if r is None:
            raise TranslationError("Linop.%s: a path ends without return" % name)
        if want == "farr":
            return "\n".join(ev.lines + [ev.arr(r, fn).data])
        if r.kind != "LINOP":
            raise TranslationError("Linop.%s returns a value of kind %s" % (name, r.kind))
        return "\n".join(ev.lines + [r.term])
    text = decision_tree(run_path)
    return fn, "\n".join("    " + t for t in text.split("\n"))


def combine_def(mod):
    fn = mod.funcs["_combine_compose_linops"]
    bad = TranslationError("_combine_compose_linops, linop.py line %d: not the loop `for l in linops: <extend by l.linops if isinstance(l, Compose) else by [l]>`" % fn.lineno)
    body = strip_doc(fn)
    if [x.arg for x in fn.args.args] != ["linops"] or fn.args.defaults or len(body) != 3:
        raise bad
    a, f, r = body
    if not (isinstance(a, ast.Assign) and len(a.targets) == 1 and isinstance(a.targets[0], ast.Name) and isinstance(a.value, ast.List) and not a.value.elts):
        raise bad
    acc = a.targets[0].id
    if not (isinstance(r, ast.Return) and isinstance(r.value, ast.Name) and r.value.id == acc):
        raise bad
    if not (isinstance(f, ast.For) and not f.orelse and isinstance(f.target, ast.Name) and isinstance(f.iter, ast.Name) and f.iter.id == "linops"
            and len(f.body) == 1 and isinstance(f.body[0], ast.If) and len(f.body[0].body) == 1 and len(f.body[0].orelse) == 1):
        raise bad
    v = f.target.id
    t = f.body[0].test
    if ast.unparse(t) != "isinstance(%s, Compose)" % v:
        raise bad

    def ext(st, in_compose):
        if isinstance(st, ast.AugAssign) and isinstance(st.op, ast.Add) and isinstance(st.target, ast.Name) and st.target.id == acc:
            e = st.value
            if in_compose and ast.unparse(e) == "%s.linops" % v:
                return "l__"
            if isinstance(e, ast.List) and len(e.elts) == 1 and ast.unparse(e.elts[0]) == v:
                return "[%s_it]" % v
        if isinstance(st, ast.Expr) and ast.unparse(st.value) == "%s.append(%s)" % (acc, v):
            return "[%s_it]" % v
        raise bad
    A, B = ext(f.body[0].body[0], True), ext(f.body[0].orelse[0], False)
    return ("  (* _combine_compose_linops  (linop.py line %d) *)\n"
            "  Definition gen_combine_compose_linops (linops : list linop) : list linop :=\n"
            "    flat_map (fun %s_it => match %s_it with Compose l__ => %s | _ => %s end) linops.   (* L%d: for %s in linops *)\n"
            "  Lemma gen_combine_compose_linops_ok : forall linops, gen_combine_compose_linops linops = flatten_compose linops.\n"
            "  Proof. reflexivity. Qed.\n" % (fn.lineno, v, v, A, B, f.lineno, v))


def overloads(mod):
    out = []
    L = lambda t: V("LINOP", t)
    arr_in = V("ARR", shape=V("ZL", "(ishape_of self)", seq="list"), data="input", origin="input")

    def emit(gen, pyname, env, want, binders, lemma=None, comment=""):
        fn, text = base_method(mod, pyname, env, want)
        out.append("  (* Linop.%s  (linop.py line %d)%s *)" % (pyname, fn.lineno, comment))
        out.append("  Definition %s %s : %s :=\n%s." % (gen, binders, "farr" if want == "farr" else "linop", text))
        if lemma:
            out.append("  Lemma %s_ok : %s.\n  Proof. reflexivity. Qed." % (gen, lemma))
        out.append("")
    emit("gen_Linop_apply", "apply", {"self": L("self"), "input": arr_in}, "farr", "(self : linop) (input : farr)")
    emit("gen_Linop_mul_array", "__mul__", {"self": L("self"), "input": arr_in}, "farr", "(self : linop) (input : farr)", comment=", input an array")
    emit("gen_Linop_call", "__call__", {"self": L("self"), "input": arr_in}, "farr", "(self : linop) (input : farr)",
         "forall (self : linop) (input : farr), gen_Linop_call self input = D self input")
    out.append(combine_def(mod))
    emit("gen_Linop_mul_linop", "__mul__", {"self": L("self"), "input": L("input")}, "linop", "(self input : linop)",
         "forall self input, gen_Linop_mul_linop self input = op_mul self input", ", input an operator")
    emit("gen_Linop_mul_scalar", "__mul__", {"self": L("self"), "input": V("SCALTAG", "input")}, "linop", "(self : linop) (input : Z)",
         "forall self input, gen_Linop_mul_scalar self input = op_rscale self input", ", input a scalar (its tag)")
    emit("gen_Linop_rmul_scalar", "__rmul__", {"self": L("self"), "input": V("SCALTAG", "input")}, "linop", "(self : linop) (input : Z)",
         "forall self input, gen_Linop_rmul_scalar self input = op_lscale input self", ", input a scalar (its tag)")
    emit("gen_Linop_add", "__add__", {"self": L("self"), "input": L("input")}, "linop", "(self input : linop)",
         "forall self input, gen_Linop_add self input = op_add self input")
    emit("gen_Linop_neg", "__neg__", {"self": L("self")}, "linop", "(self : linop)",
         "forall self, gen_Linop_neg self = op_neg self", ": -1 * self is self.__rmul__(-1); the literal -1 is the scalar tag neg_one_tag")
    emit("gen_Linop_sub", "__sub__", {"self": L("self"), "input": L("input")}, "linop", "(self input : linop)",
         "forall self input, gen_Linop_sub self input = op_sub self input")
    return "\n".join(out)


def translate_source(mod):
    srcs = "; ".join("%s sha256 %s" % (k, v[:16]) for k, v in sorted(mod.sha.items()))
    out = [HEADER % srcs, PRELUDE,
           "Section Gen.\n  Variable R : Ops.\n  Notation farr := (list Z -> R).\n  Variable arr : Z -> farr.\n  Variable scal : Z -> R.\n"
           "  Variable orc : linop -> farr -> farr.\n  Notation D := (den arr scal orc noforce).\n",
           overloads(mod)]
    for c in PART_DEN:
        out.append(class_def(mod, c, False))
    out.append("End Gen.\n")
    out.append(MARK_STD)
    out.append(STD_REQUIRE)
    out.append("Section GenStd.\n  Variable R : Ops.\n  Variable C : COps.\n  Variable E : std_env R C.\n  Notation farr := (list Z -> R).\n"
               "  Variable arr : Z -> farr.\n  Variable scal : Z -> R.\n  Notation D := (den arr scal (orc_std E arr) noforce).\n")
    for c in PART_STD:
        out.append(class_def(mod, c, True))
    out.append("End GenStd.")
    return "\n".join(out) + "\n"


def translate_linop_apply(repo, path=None):
    return translate_source(Module(repo, path))


def failing_lemma(gen_text, log):
    m = re.search(r'line (\d+), characters', log)
    if not m:
        return None
    lines = gen_text.split("\n")
    for i in range(min(int(m.group(1)), len(lines)) - 1, -1, -1):
        mm = re.match(r"\s*(?:Lemma|Definition)\s+([A-Za-z0-9_']+)", lines[i])
        if mm:
            return mm.group(1)
    return None


COVERED = ("Linop.apply/__call__/__mul__/__rmul__/__add__/__sub__/__neg__, _combine_compose_linops, _apply of "
           + ", ".join(PART_DEN + PART_STD))


def split_parts(text):
    """the text of part den alone (compiles on its own)"""
    return text.split(MARK_STD)[0]


def tie(ctx):
    """Obligations for props/linop_common.py (C01-C04): regenerate gen/Gen_linop_apply.v from the tree under test, compile it
    (the `_ok` lemmas ARE the tie).  Returns None, or {"theorem": <translator or lemma>, "log": ...} for the no-failing-input report."""
    from tools import translate_all
    from vlib import core
    tr_err = translate_all.run(strict=False, only=["linop_apply"])
    ctx.obligation("translate:%s (%s)" % (SRC_REL, COVERED), not tr_err)
    n_den = "tie:generated == den (gen/Gen_linop_apply.v part den: %d lemmas gen_Linop_*_ok, gen_apply_<Class>_ok for %s)" \
        % (len(LEMMAS_DEN), ", ".join(PART_DEN))
    n_std = "tie:generated == den over orc_std (gen/Gen_linop_apply.v part std: gen_apply_<Class>_ok for %s)" % ", ".join(PART_STD)
    if tr_err:
        ctx.notes.append("translator failed closed: %s" % tr_err)
        ctx.obligation(n_den, False)
        ctx.obligation(n_std, False)
        return {"theorem": "translate:" + SRC_REL, "log": str(tr_err)}
    ctx.checker_cmds.append("cd %s && make gen/Gen_linop_apply.vo" % core.COQ)
    ok, log = core.coq_make(["gen/Gen_linop_apply.vo"], timeout=900)
    if ok:
        ctx.obligation(n_den, True)
        ctx.obligation(n_std, True)
        return None
    path = os.path.join(core.COQ, "gen", "Gen_linop_apply.v")
    text = open(path).read()
    lem, line = None, None
    m = re.search(r'File "[^"]*?Gen_linop_apply\.v", line (\d+)', log)
    if m:
        line = int(m.group(1))
        lem = failing_lemma(text, "line %d, characters" % line)
    mark = text[:text.find(MARK_STD)].count("\n") + 1 if MARK_STD in text else 10 ** 9
    den_ok = False
    if line is not None and line > mark:
        # the failure is in part std: part den is compiled on its own (scratch copy)
        d = os.path.join(core.BUILD, "tr_linop_apply_den_%d" % os.getpid())
        os.makedirs(d, exist_ok=True)
        q = os.path.join(d, "Gen_linop_apply_den.v")
        open(q, "w").write(split_parts(text))
        rc, _ = core.coqc_file(q, timeout=600)
        den_ok = rc == 0
        import shutil
        shutil.rmtree(d, ignore_errors=True)
    ctx.obligation(n_den, den_ok)
    ctx.obligation(n_std, False)
    which = "%s (gen/Gen_linop_apply.v)" % (lem or "?")
    ctx.notes.append("generated _apply methods no longer equal the hand model: %s: %s" % (which, log[-1200:]))
    return {"theorem": "tie:" + which, "log": log[-2500:]}


if __name__ == "__main__":
    args = [a for a in sys.argv[1:] if not a.startswith("--")]
    sys.stdout.write(translate_linop_apply(args[0] if args else "/repo"))
