#!/usr/bin/env python3
"""Self-test of tools/translate_fourier.py: small textual mutations of COPIES of sigpy/fourier.py (and util.py).

For every mutation the copy is translated; expected outcome: the translation FAILS CLOSED (TranslationError naming the
line) or the first `_ok` lemma that no longer compiles is named.  The unmodified source and the meaning-preserving edits
that keep the generated term must pass; meaning-preserving edits that change the generated TERM (or leave the fragment)
are listed with the expectation "breaks" (accepted by the brief: the check then falls back to the correspondence and the
oracles).  Scratch copies: /verif/build/trfourier_selftest/<name>/{sigpy/*.py,Gen_fourier.v}.
Informational: the seeded changes /verif/seeded/C05_m*, C06_m* that touch fourier.py / util.py.

    /venv/bin/python tools/test_translate_fourier.py [repo] [--no-seeded]        exit 0 = everything as expected
"""
import concurrent.futures
import os
import shutil
import subprocess
import sys
import time

HERE = os.path.dirname(os.path.abspath(__file__))
sys.path.insert(0, os.path.dirname(HERE))
from tools import translate_fourier as T      # noqa: E402
from vlib import core                        # noqa: E402

SCRATCH = os.path.join(core.BUILD, "trfourier_selftest")
F, U = T.SRC_REL, T.UTIL_REL

FFTC_TAIL = ("    tmp = util.resize(input, oshape)\n    tmp = xp.fft.ifftshift(tmp, axes=axes)\n    tmp = xp.fft.fftn(tmp, axes=axes, norm=norm)\n"
             "    output = xp.fft.fftshift(tmp, axes=axes)\n    return output\n")
CAST_BACK = ("    if (\n        np.issubdtype(input.dtype, np.complexfloating)\n        and input.dtype != output.dtype\n    ):\n"
             "        output = output.astype(input.dtype, copy=False)\n\n    return output")

# (name, file, [(old text, new text, occurrence (0-based; -1 = all))], expectation)
#   "caught": a defect -- must fail closed or break a lemma;  "pass": meaning-preserving, must still be accepted;
#   "breaks": meaning-preserving but changes the generated term / leaves the fragment -- reported, and said so
MUTATIONS = [
    # ---- _fftc / _ifftc: centre shifts, resize first, norm ------------------------------------------------------------
    ("fc_in_shift_is_fftshift", F, [("tmp = xp.fft.ifftshift(tmp, axes=axes)", "tmp = xp.fft.fftshift(tmp, axes=axes)", 0)], "caught"),
    ("fc_out_shift_is_ifftshift", F, [("output = xp.fft.fftshift(tmp, axes=axes)", "output = xp.fft.ifftshift(tmp, axes=axes)", 0)], "caught"),
    ("ifc_out_shift_is_ifftshift", F, [("output = xp.fft.fftshift(tmp, axes=axes)", "output = xp.fft.ifftshift(tmp, axes=axes)", 1)], "caught"),
    ("fc_resize_last", F, [(FFTC_TAIL, "    tmp = xp.fft.ifftshift(input, axes=axes)\n    tmp = xp.fft.fftn(tmp, axes=axes, norm=norm)\n"
                            "    tmp = xp.fft.fftshift(tmp, axes=axes)\n    output = util.resize(tmp, oshape)\n    return output\n", 0)], "caught"),
    ("fc_no_resize", F, [("tmp = util.resize(input, oshape)\n    tmp = xp.fft.ifftshift(tmp, axes=axes)", "tmp = xp.fft.ifftshift(input, axes=axes)", 0)], "caught"),
    ("fc_norm_dropped", F, [("tmp = xp.fft.fftn(tmp, axes=axes, norm=norm)", "tmp = xp.fft.fftn(tmp, axes=axes)", 0)], "caught"),
    ("fc_norm_forced_ortho", F, [("tmp = xp.fft.fftn(tmp, axes=axes, norm=norm)", "tmp = xp.fft.fftn(tmp, axes=axes, norm=\"ortho\")", 0)], "caught"),
    ("ifc_uses_fftn", F, [("tmp = xp.fft.ifftn(tmp, axes=axes, norm=norm)", "tmp = xp.fft.fftn(tmp, axes=axes, norm=norm)", 0)], "caught"),
    ("fc_axes_not_normalised", F, [("    axes = util._normalize_axes(axes, ndim)\n", "", 0)], "caught"),
    ("fc_normalise_ndim_plus_1", F, [("axes = util._normalize_axes(axes, ndim)", "axes = util._normalize_axes(axes, ndim + 1)", 0)], "caught"),
    ("fc_oshape_test_reversed", F, [("    if oshape is None:\n        oshape = input.shape\n\n    tmp = util.resize(input, oshape)\n    tmp = xp.fft.ifftshift(tmp, axes=axes)\n    tmp = xp.fft.fftn",
                                      "    if oshape is not None:\n        oshape = input.shape\n\n    tmp = util.resize(input, oshape)\n    tmp = xp.fft.ifftshift(tmp, axes=axes)\n    tmp = xp.fft.fftn", 0)], "caught"),
    ("fc_shift_all_axes", F, [("tmp = xp.fft.ifftshift(tmp, axes=axes)", "tmp = xp.fft.ifftshift(tmp)", 0)], "caught"),
    ("fc_fftn_all_axes", F, [("tmp = xp.fft.fftn(tmp, axes=axes, norm=norm)", "tmp = xp.fft.fftn(tmp, norm=norm)", 0)], "caught"),
    ("fc_default_norm_none", F, [("def _fftc(input, oshape=None, axes=None, norm=\"ortho\"):", "def _fftc(input, oshape=None, axes=None, norm=None):", 0)], "caught"),
    # ---- fft / ifft: branches, arguments, dtype rule -----------------------------------------------------------------
    ("fft_branches_swapped", F, [("        output = _fftc(input, oshape=oshape, axes=axes, norm=norm)\n    else:\n        output = xp.fft.fftn(input, s=oshape, axes=axes, norm=norm)",
                                  "        output = xp.fft.fftn(input, s=oshape, axes=axes, norm=norm)\n    else:\n        output = _fftc(input, oshape=oshape, axes=axes, norm=norm)", 0)], "caught"),
    ("fft_calls_ifftc", F, [("output = _fftc(input", "output = _ifftc(input", 0)], "caught"),
    ("ifft_plain_uses_fftn", F, [("output = xp.fft.ifftn(input, s=oshape", "output = xp.fft.fftn(input, s=oshape", 0)], "caught"),
    ("fft_oshape_not_passed", F, [("_fftc(input, oshape=oshape, axes=axes, norm=norm)", "_fftc(input, axes=axes, norm=norm)", 0)], "caught"),
    ("fft_plain_s_dropped", F, [("xp.fft.fftn(input, s=oshape, axes=axes, norm=norm)", "xp.fft.fftn(input, axes=axes, norm=norm)", 0)], "caught"),
    ("fft_plain_s_axes_swapped", F, [("xp.fft.fftn(input, s=oshape, axes=axes, norm=norm)", "xp.fft.fftn(input, s=axes, axes=oshape, norm=norm)", 0)], "caught"),
    ("ifft_norm_not_passed", F, [("_ifftc(input, oshape=oshape, axes=axes, norm=norm)", "_ifftc(input, oshape=oshape, axes=axes)", 0)], "caught"),
    ("fft_cast_to_complex128", F, [("input = input.astype(np.complex64)", "input = input.astype(np.complex128)", 0)], "caught"),
    ("fft_complex_test_is_c64", F, [("if not np.issubdtype(input.dtype, np.complexfloating):", "if not np.issubdtype(input.dtype, np.complex64):", 0)], "caught"),
    ("ifft_complex_test_not_negated", F, [("if not np.issubdtype(input.dtype, np.complexfloating):", "if np.issubdtype(input.dtype, np.complexfloating):", 1)], "caught"),
    ("fft_no_cast_back", F, [(CAST_BACK, "    return output", 0)], "caught"),
    ("fft_cast_back_to_c128", F, [("output = output.astype(input.dtype, copy=False)", "output = output.astype(np.complex128, copy=False)", 0)], "caught"),
    ("fft_cast_back_test_eq", F, [("and input.dtype != output.dtype", "and input.dtype == output.dtype", 0)], "caught"),
    ("fft_default_center_false", F, [("def fft(input, oshape=None, axes=None, center=True, norm=\"ortho\"):", "def fft(input, oshape=None, axes=None, center=False, norm=\"ortho\"):", 0)], "caught"),
    ("fft_values_depend_on_dtype", F, [("        input = input.astype(np.complex64)\n\n    if center:\n        output = _fftc",
                                        "        input = input.astype(np.complex64)\n        axes = None\n\n    if center:\n        output = _fftc", 0)], "caught"),
    # ---- util.py helper the reading relies on ----------------------------------------------------------------------------
    ("util_axes_not_sorted", U, [("return tuple(a % ndim for a in sorted(axes))", "return tuple(a % ndim for a in axes)", 0)], "caught"),
    ("util_empty_axes_is_all", U, [("def _normalize_axes(axes, ndim):\n    if axes is None:", "def _normalize_axes(axes, ndim):\n    if not axes:", 0)], "caught"),
    # ---- _get_oversamp_shape / _scale_coord / _apodize ----------------------------------------------------------------
    ("os_truncates", F, [("[ceil(oversamp * i) for i in shape[-ndim:]]", "[int(oversamp * i) for i in shape[-ndim:]]", 0)], "caught"),
    ("os_every_axis", F, [("return list(shape)[:-ndim] + [ceil(oversamp * i) for i in shape[-ndim:]]", "return [ceil(oversamp * i) for i in shape]", 0)], "caught"),
    ("os_batch_axes_lost", F, [("return list(shape)[:-ndim] + [", "return [", 0)], "caught"),
    ("os_plus_1", F, [("[ceil(oversamp * i) for i in shape[-ndim:]]", "[ceil(oversamp * i) + 1 for i in shape[-ndim:]]", 0)], "caught"),
    ("sc_shift_not_halved", F, [("shift = ceil(oversamp * shape[i]) // 2", "shift = ceil(oversamp * shape[i])", 0)], "caught"),
    ("sc_shift_from_shape", F, [("shift = ceil(oversamp * shape[i]) // 2", "shift = shape[i] // 2", 0)], "caught"),
    ("sc_scale_inverted", F, [("scale = ceil(oversamp * shape[i]) / shape[i]", "scale = shape[i] / ceil(oversamp * shape[i])", 0)], "caught"),
    ("sc_scale_floor_div", F, [("scale = ceil(oversamp * shape[i]) / shape[i]", "scale = ceil(oversamp * shape[i]) // shape[i]", 0)], "caught"),
    ("sc_shift_before_scale", F, [("        output[..., i] *= scale\n        output[..., i] += shift", "        output[..., i] += shift\n        output[..., i] *= scale", 0)], "caught"),
    ("sc_shift_subtracted", F, [("output[..., i] += shift", "output[..., i] -= shift", 0)], "caught"),
    ("sc_in_place_on_caller", F, [("    output = coord.copy()\n    for i in range(-ndim, 0):", "    output = coord\n    for i in range(-ndim, 0):", 0)], "caught"),
    ("sc_float32", F, [("    output = coord.copy()\n    for i in range(-ndim, 0):", "    output = coord.astype(np.float32)\n    for i in range(-ndim, 0):", 0)], "caught"),
    ("ap_centre_off_by_one", F, [("(idx - i // 2)", "(idx - (i - 1) // 2)", 0)], "caught"),
    ("ap_os_i_is_i", F, [("os_i = ceil(oversamp * i)", "os_i = i", 0)], "caught"),
    ("ap_sinh_dropped", F, [("        apod /= xp.sinh(apod)\n", "", 0)], "caught"),
    ("ap_times_sinh", F, [("apod /= xp.sinh(apod)", "apod *= xp.sinh(apod)", 0)], "caught"),
    ("ap_beta_not_squared", F, [("beta**2 - (np.pi", "beta - (np.pi", 0)], "caught"),
    ("ap_pi_dropped", F, [("(np.pi * width * (idx - i // 2) / os_i)", "(width * (idx - i // 2) / os_i)", 0)], "caught"),
    ("ap_no_sqrt", F, [("        ) ** 0.5\n        apod /= xp.sinh(apod)", "        )\n        apod /= xp.sinh(apod)", 0)], "caught"),
    ("ap_wrong_broadcast_axis", F, [("[1] * (-a - 1)", "[1] * (-a)", 0)], "caught"),
    ("ap_divides", F, [("output *= apod.reshape(", "output /= apod.reshape(", 0)], "caught"),
    ("ap_not_in_place", F, [("    output = input\n    for a in range(-ndim, 0):", "    output = input.copy()\n    for a in range(-ndim, 0):", 0)], "caught"),
    # ---- nufft / nufft_adjoint / estimate_shape / toeplitz_psf --------------------------------------------------------
    ("nf_beta_constant", F, [("** 2 - 0.8) ** 0.5", "** 2 - 0.75) ** 0.5", 0)], "caught"),
    ("na_beta_half", F, [("(oversamp - 0.5)) ** 2 - 0.8", "(oversamp - 0.25)) ** 2 - 0.8", 1)], "caught"),
    ("nf_no_apodize", F, [("    _apodize(output, ndim, oversamp, width, beta)\n\n    # Zero-pad", "    # Zero-pad", 0)], "caught"),
    ("nf_apodize_after_pad", F, [("    # Apodize\n    _apodize(output, ndim, oversamp, width, beta)\n\n    # Zero-pad\n    output /= util.prod(input.shape[-ndim:]) ** 0.5\n    output = util.resize(output, os_shape)\n",
                                  "    # Zero-pad\n    output /= util.prod(input.shape[-ndim:]) ** 0.5\n    output = util.resize(output, os_shape)\n    _apodize(output, ndim, oversamp, width, beta)\n", 0)], "caught"),
    ("nf_scale_all_axes", F, [("output /= util.prod(input.shape[-ndim:]) ** 0.5", "output /= util.prod(input.shape) ** 0.5", 0)], "caught"),
    ("nf_scale_no_sqrt", F, [("output /= util.prod(input.shape[-ndim:]) ** 0.5", "output /= util.prod(input.shape[-ndim:])", 0)], "caught"),
    ("nf_fft_ortho", F, [("output = fft(output, axes=range(-ndim, 0), norm=None)", "output = fft(output, axes=range(-ndim, 0), norm=\"ortho\")", 0)], "caught"),
    ("nf_fft_all_axes", F, [("output = fft(output, axes=range(-ndim, 0), norm=None)", "output = fft(output, norm=None)", 0)], "caught"),
    ("nf_fft_not_centred", F, [("output = fft(output, axes=range(-ndim, 0), norm=None)", "output = fft(output, axes=range(-ndim, 0), center=False, norm=None)", 0)], "caught"),
    ("nf_no_width_scale", F, [("    output /= width**ndim\n\n    return output\n\n\ndef estimate_shape", "    return output\n\n\ndef estimate_shape", 0)], "caught"),
    ("nf_width_scale_multiplies", F, [("    output /= width**ndim\n\n    return output\n\n\ndef estimate_shape", "    output *= width**ndim\n\n    return output\n\n\ndef estimate_shape", 0)], "caught"),
    ("nf_coord_scaled_by_os_shape", F, [("coord = _scale_coord(coord, input.shape, oversamp)", "coord = _scale_coord(coord, os_shape, oversamp)", 0)], "caught"),
    ("nf_param_is_width", F, [("output, coord, kernel=\"kaiser_bessel\", width=width, param=beta", "output, coord, kernel=\"kaiser_bessel\", width=width, param=width", 0)], "caught"),
    ("nf_in_place_on_input", F, [("    output = input.copy()\n", "    output = input\n", 0)], "caught"),
    ("nf_default_width", F, [("def nufft(input, coord, oversamp=1.25, width=4):", "def nufft(input, coord, oversamp=1.25, width=3):", 0)], "caught"),
    ("na_ifft_is_fft", F, [("output = ifft(output, axes=range(-ndim, 0), norm=None)", "output = fft(output, axes=range(-ndim, 0), norm=None)", 0)], "caught"),
    ("na_scale_no_sqrt", F, [("util.prod(os_shape[-ndim:]) / util.prod(oshape[-ndim:]) ** 0.5", "util.prod(os_shape[-ndim:]) / util.prod(oshape[-ndim:])", 0)], "caught"),
    ("na_scale_oshape_twice", F, [("util.prod(os_shape[-ndim:]) / util.prod(oshape[-ndim:]) ** 0.5", "util.prod(oshape[-ndim:]) / util.prod(oshape[-ndim:]) ** 0.5", 0)], "caught"),
    ("na_no_crop", F, [("    output = util.resize(output, oshape)\n    output *=", "    output *=", 0)], "caught"),
    ("na_grid_onto_oshape", F, [("input, coord, os_shape, kernel=", "input, coord, oshape, kernel=", 0)], "caught"),
    ("na_kernel_spline", F, [("kernel=\"kaiser_bessel\"", "kernel=\"spline\"", 1)], "caught"),
    ("na_coord_not_scaled", F, [("    coord = _scale_coord(coord, oshape, oversamp)\n", "", 0)], "caught"),
    ("na_no_apodize", F, [("    # Apodize\n    _apodize(output, ndim, oversamp, width, beta)\n\n    return output\n\n\ndef toeplitz_psf", "    return output\n\n\ndef toeplitz_psf", 0)], "caught"),
    ("na_default_oshape_batch", F, [("list(input.shape[: -coord.ndim + 1])", "list(input.shape[: -coord.ndim])", 0)], "caught"),
    ("es_plus_1", F, [("int(coord[..., i].max() - coord[..., i].min())", "int(coord[..., i].max() - coord[..., i].min()) + 1", 0)], "caught"),
    ("es_min_max_swapped", F, [("int(coord[..., i].max() - coord[..., i].min())", "int(coord[..., i].min() - coord[..., i].max())", 0)], "caught"),
    ("tp_grid_not_doubled", F, [("new_shape = _get_oversamp_shape(shape, ndim, 2)", "new_shape = _get_oversamp_shape(shape, ndim, 1)", 0)], "caught"),
    ("tp_delta_off_centre", F, [("idx[k] = new_shape[k] // 2", "idx[k] = (new_shape[k] - 1) // 2", 0)], "caught"),
    ("tp_scale_4", F, [("* (2**ndim)", "* (4**ndim)", 0)], "caught"),
    ("tp_fft_ortho", F, [("psf = fft(psf, axes=fft_axes, norm=None)", "psf = fft(psf, axes=fft_axes, norm=\"ortho\")", 0)], "caught"),
    ("tp_adjoint_onto_shape", F, [("nufft_adjoint(psf, new_coord, d.shape, oversamp, width)", "nufft_adjoint(psf, new_coord, shape, oversamp, width)", 0)], "caught"),
    ("tp_coord_not_scaled", F, [("psf = nufft(d, new_coord, oversamp, width)", "psf = nufft(d, coord, oversamp, width)", 0)], "caught"),
    ("redefined_later", F, [("def _scale_coord(coord, shape, oversamp):", "def _fftc(input, oshape=None, axes=None, norm=\"ortho\"):\n    return input\n\n\ndef _scale_coord(coord, shape, oversamp):", 0)], "caught"),
    ("ceil_rebound", F, [("from math import ceil", "from numpy import ceil", 0)], "caught"),
    # ---- meaning-preserving edits: the tie must survive them ------------------------------------------------------------
    ("neutral_rename_local_tmp", F, [("tmp", "work", -1)], "pass"),
    ("neutral_rename_loop_var", F, [("for a in range(-ndim, 0):\n        i = output.shape[a]", "for ax in range(-ndim, 0):\n        i = output.shape[ax]", 0), ("[1] * (-a - 1)", "[1] * (-ax - 1)", 0)], "pass"),
    ("neutral_comments_docstring", F, [("    ndim = input.ndim\n", "    # number of axes\n    ndim = input.ndim  # int\n", -1), ("\"\"\"FFT function that supports centering.", "\"\"\"Centred FFT.", 0)], "pass"),
    ("neutral_unused_local", F, [("    os_shape = _get_oversamp_shape(input.shape, ndim, oversamp)\n", "    os_shape = _get_oversamp_shape(input.shape, ndim, oversamp)\n    npts_guess = util.prod(coord.shape[:-1])\n", 0)], "pass"),
    ("neutral_unused_scalar", F, [("    os_shape = _get_oversamp_shape(input.shape, ndim, oversamp)\n", "    os_shape = _get_oversamp_shape(input.shape, ndim, oversamp)\n    half_width = width / 2\n", 0)], "pass"),
    ("neutral_return_expression", F, [("    output = xp.fft.fftshift(tmp, axes=axes)\n    return output", "    return xp.fft.fftshift(tmp, axes=axes)", 0)], "pass"),
    ("neutral_positional_args", F, [("_fftc(input, oshape=oshape, axes=axes, norm=norm)", "_fftc(input, oshape, axes, norm)", 0)], "pass"),
    ("neutral_not_in_place_scale", F, [("    output /= width**ndim\n\n    return output\n\n\ndef estimate_shape", "    output = output / width**ndim\n\n    return output\n\n\ndef estimate_shape", 0)], "pass"),
    ("neutral_literal_as_quotient", F, [("(oversamp - 0.5)) ** 2 - 0.8", "(oversamp - 1 / 2)) ** 2 - 4 / 5", -1)], "pass"),
    ("neutral_extra_import_and_helper", F, [("from sigpy import backend, interp, util\n", "import itertools\nfrom sigpy import backend, interp, util\n", 0),
                                            ("def _scale_coord(coord, shape, oversamp):", "def _unused_helper(x):\n    return x\n\n\ndef _scale_coord(coord, shape, oversamp):", 0)], "pass"),
    # ---- meaning-preserving edits that change the TERM or leave the fragment: reported (accepted) ------------------------
    ("refactor_commuted_product", F, [("np.pi * width * (idx - i // 2)", "width * np.pi * (idx - i // 2)", 0)], "breaks"),
    ("refactor_update_as_one_assignment", F, [("        output[..., i] *= scale\n        output[..., i] += shift", "        output[..., i] = output[..., i] * scale + shift", 0)], "breaks"),
    ("refactor_sqrt_call", F, [("output /= util.prod(input.shape[-ndim:]) ** 0.5", "output /= np.sqrt(util.prod(input.shape[-ndim:]))", 0)], "breaks"),
    ("refactor_module_constant", F, [("def fft(input, oshape=None, axes=None, center=True, norm=\"ortho\"):", "_DEFAULT_WIDTH = 4\n\n\ndef fft(input, oshape=None, axes=None, center=True, norm=\"ortho\"):", 0)], "breaks"),
]


def nth_replace(text, old, new, k):
    if k == -1:
        assert old in text, old
        return text.replace(old, new)
    idx = -1
    for _ in range(k + 1):
        idx = text.find(old, idx + 1)
        if idx < 0:
            raise AssertionError("pattern not found (occurrence %d): %r" % (k, old))
    return text[:idx] + new + text[idx + len(old):]


def compile_gen(path):
    p = subprocess.run(["coqc", "-w", "-all", "-Q", core.COQ, "SV", path], cwd=os.path.dirname(path),
                       stdout=subprocess.PIPE, stderr=subprocess.STDOUT, text=True, timeout=600)
    return p.returncode, p.stdout


def one(name, srcs):
    d = os.path.join(SCRATCH, name.replace(":", "_"))
    shutil.rmtree(d, ignore_errors=True)
    os.makedirs(os.path.join(d, "sigpy"))
    for rel, text in srcs.items():
        with open(os.path.join(d, rel), "w") as f:
            f.write(text)
    try:
        text = T.translate_fourier(d)               # reads <d>/sigpy/{fourier,util,interp}.py
    except T.TranslationError as e:
        return ("fails closed", str(e))
    except SyntaxError as e:
        return ("fails closed", "SyntaxError: %s" % e)
    path = os.path.join(d, "Gen_fourier.v")
    with open(path, "w") as f:
        f.write(text)
    rc, out = compile_gen(path)
    if rc == 0:
        return ("ok", "")
    return ("lemma fails", str(T.failing_lemma(text, out)))


def seeded_patches(srcs0):
    """the seeded changes of /verif/seeded for C05 / C06 that touch fourier.py or util.py (informational)"""
    out = []
    root = os.path.join(core.VERIF, "seeded")
    for name in sorted(os.listdir(root)) if os.path.isdir(root) else []:
        patch = os.path.join(root, name, "patch.diff")
        if not (name.startswith("C05_") or name.startswith("C06_")) or not os.path.exists(patch):
            continue
        files = [l.split()[1][2:] for l in open(patch) if l.startswith("+++ ")]
        if not set(files) & {F, U}:
            continue
        d = os.path.join(SCRATCH, "seeded_src_" + name)
        shutil.rmtree(d, ignore_errors=True)
        os.makedirs(os.path.join(d, "sigpy"))
        for rel, text in srcs0.items():
            open(os.path.join(d, rel), "w").write(text)
        p = subprocess.run(["patch", "-p1", "-s", "--no-backup-if-mismatch", "-d", d, "-i", patch],
                           stdout=subprocess.PIPE, stderr=subprocess.STDOUT, text=True)
        if p.returncode:
            out.append(("seeded:" + name, None, "does not apply"))
            continue
        out.append(("seeded:" + name, {rel: open(os.path.join(d, rel)).read() for rel in srcs0}, "info"))
        shutil.rmtree(d, ignore_errors=True)
    return out


def main():
    pos = [a for a in sys.argv[1:] if not a.startswith("--")]
    repo = pos[0] if pos else core.REPO
    t0 = time.time()
    ok, log = core.coq_make(["model/NufftExt.vo"], timeout=900)
    if not ok:
        print("cannot build the hand models:\n" + log[-1500:])
        return 2
    srcs0 = {rel: open(os.path.join(repo, rel)).read() for rel in (T.SRC_REL, T.UTIL_REL, T.INTERP_REL)}
    jobs = [("UNMODIFIED", srcs0, "pass")]
    for name, rel, edits, expect in MUTATIONS:
        s = dict(srcs0)
        for old, new, k in edits:
            s[rel] = nth_replace(s[rel], old, new, k)
        jobs.append((name, s, expect))
    if "--no-seeded" not in sys.argv:
        jobs += [j for j in seeded_patches(srcs0) if j[1] is not None]
    with concurrent.futures.ThreadPoolExecutor(max_workers=8) as ex:
        results = list(ex.map(lambda j: one(j[0], j[1]), jobs))
    bad = 0
    tally = {}
    print("%-36s %-8s %-9s %s" % ("mutation", "expected", "verdict", "how"))
    for (name, _, expect), (how, detail) in zip(jobs, results):
        verdict = "pass" if how == "ok" else "caught"
        good = expect == "info" or verdict == {"caught": "caught", "breaks": "caught", "pass": "pass"}[expect]
        bad += 0 if good else 1
        tally[(expect, how)] = tally.get((expect, how), 0) + 1
        print("%-36s %-8s %-9s %s%s" % (name, expect, verdict + ("" if good else " (!!)"), how, (": " + detail[:230]) if detail else ""))
    print("; ".join("%s/%s: %d" % (e, h, n) for (e, h), n in sorted(tally.items())))
    print("%d cases, %d unexpected, %.1fs" % (len(jobs), bad, time.time() - t0))
    return 1 if bad else 0


if __name__ == "__main__":
    sys.exit(main())
