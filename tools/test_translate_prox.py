#!/usr/bin/env python3
"""Self-test of tools/translate_prox.py: small textual mutations of a COPY of sigpy/thresh.py, sigpy/prox.py (and util.py).

For every mutation the copies are translated; expected outcome: the translation FAILS CLOSED (TranslationError naming
the line) or the first `_ok` lemma of Gen_prox.v that no longer compiles is named.  The unmodified sources and the
semantics-preserving edits that keep the term (renamed local, comment, docstring, unused local) must pass; harmless
refactors that change the term are listed with expectation "breaks" (they are reported, which is accepted).
Scratch copies: /verif/build/trprox_selftest/<name>/{sigpy/*.py,Gen_prox.v}.

    /venv/bin/python tools/test_translate_prox.py [repo] [--no-seeded]        exit 0 = everything as expected
"""
import concurrent.futures
import os
import shutil
import subprocess
import sys
import time

HERE = os.path.dirname(os.path.abspath(__file__))
sys.path.insert(0, os.path.dirname(HERE))
from tools import translate_prox as T      # noqa: E402
from vlib import core                     # noqa: E402

SCRATCH = os.path.join(core.BUILD, "trprox_selftest")
FILES = {"thresh": "thresh.py", "prox": "prox.py", "util": "util.py"}

# (name, file, old text, new text, which occurrence (0-based; -1 = all), expectation)
#   "caught": a defect, must fail closed or break a lemma;  "pass": harmless, must still be accepted;
#   "breaks": harmless but changes the generated term (reported; accepted)
MUTATIONS = [
    # ---- numba kernels
    ("st_zero_test_lt", "thresh", "    if abs_input == 0:", "    if abs_input < 0:", 0, "caught"),
    ("st_sign_one", "thresh", "        sign = 0\n", "        sign = 1\n", 0, "caught"),
    ("st_mag_plus_lamda", "thresh", "mag = abs_input - lamda", "mag = abs_input + lamda", 0, "caught"),
    ("st_mag_not_halved", "thresh", "mag = (abs(mag) + mag) / 2", "mag = abs(mag) + mag", 0, "caught"),
    ("st_mag_dropped_abs", "thresh", "mag = (abs(mag) + mag) / 2", "mag = (mag + mag) / 2", 0, "caught"),
    ("st_sign_not_normalised", "thresh", "        sign = input / abs_input\n", "        sign = input\n", 0, "caught"),
    ("st_kernel_args_swapped", "thresh", "return _soft_thresh(lamda, input)", "return _soft_thresh(input, lamda)", 0, "caught"),
    ("ht_ge", "thresh", "    if abs_input > lamda:", "    if abs_input >= lamda:", 0, "caught"),
    ("ht_lt", "thresh", "    if abs_input > lamda:", "    if abs_input < lamda:", 0, "caught"),
    ("ht_branches_swapped", "thresh", "        return input\n    else:\n        return 0\n", "        return 0\n    else:\n        return input\n", 0, "caught"),
    ("ht_calls_soft_kernel", "thresh", "return _hard_thresh(lamda, input)", "return _soft_thresh(lamda, input)", 0, "caught"),
    ("cpu_branch_negated", "thresh", "    if xp == np:", "    if xp != np:", 0, "caught"),
    # ---- l1_proj
    ("l1_feasible_le", "thresh", "if xp.linalg.norm(input, 1) < eps:", "if xp.linalg.norm(input, 1) <= eps:", 0, "caught"),
    ("l1_norm_2", "thresh", "xp.linalg.norm(input, 1)", "xp.linalg.norm(input, 2)", 0, "caught"),
    ("l1_not_flattened", "thresh", "    input = input.ravel()\n", "", 0, "caught"),
    ("l1_ravel_order_K", "thresh", "input = input.ravel()", 'input = input.ravel(order="K")', 0, "caught"),
    ("l1_feasible_returns_flat", "thresh", "        return input.reshape(shape)\n", "        return input\n", 0, "caught"),
    ("l1_result_flat", "thresh", "return soft_thresh(st[idx], input.reshape(shape))", "return soft_thresh(st[idx], input)", 0, "caught"),
    ("l1_sort_ascending", "thresh", "s = xp.sort(xp.abs(input))[::-1]", "s = xp.sort(xp.abs(input))", 0, "caught"),
    ("l1_sort_no_abs", "thresh", "s = xp.sort(xp.abs(input))[::-1]", "s = xp.sort(input)[::-1]", 0, "caught"),
    ("l1_cumsum_plus_eps", "thresh", "(xp.cumsum(s) - eps)", "(xp.cumsum(s) + eps)", 0, "caught"),
    ("l1_arange_plus_2", "thresh", "(xp.arange(size) + 1)", "(xp.arange(size) + 2)", 0, "caught"),
    ("l1_arange_from_0", "thresh", "(xp.arange(size) + 1)", "xp.arange(size)", 0, "caught"),
    ("l1_cond_ge", "thresh", "((s - st) > 0)", "((s - st) >= 0)", 0, "caught"),
    ("l1_cond_swapped", "thresh", "((s - st) > 0)", "((st - s) > 0)", 0, "caught"),
    ("l1_first_hit", "thresh", "xp.flatnonzero((s - st) > 0).max()", "xp.flatnonzero((s - st) > 0).min()", 0, "caught"),
    ("l1_hard_thresh", "thresh", "return soft_thresh(st[idx]", "return hard_thresh(st[idx]", 0, "caught"),
    # ---- l2_proj / linf_proj
    ("l2_no_sqrt", "thresh", "keepdims=True) ** 0.5", "keepdims=True)", 0, "caught"),
    ("l2_abs_not_squared", "thresh", "xp.sum(xp.abs(input) ** 2,", "xp.sum(xp.abs(input),", 0, "caught"),
    ("l2_mask_gt", "thresh", "mask = norm < eps", "mask = norm > eps", 0, "caught"),
    ("l2_mask_dropped_in_denominator", "thresh", "(norm + mask)", "norm", 0, "caught"),
    ("l2_one_plus_mask", "thresh", "(1 - mask)", "(1 + mask)", 0, "caught"),
    ("l2_eps_dropped", "thresh", "(eps * input / (norm + mask))", "(input / (norm + mask))", 0, "caught"),
    ("l2_keepdims_false", "thresh", "keepdims=True", "keepdims=False", 0, "caught"),
    ("l2_axes_not_normalised", "thresh", "    axes = util._normalize_axes(axes, input.ndim)\n", "", 0, "caught"),
    ("linf_plus", "thresh", "output = input - soft_thresh(eps, input)", "output = input + soft_thresh(eps, input)", 0, "caught"),
    ("linf_bias_subtracted_twice", "thresh", "        output += bias\n", "        output -= bias\n", 0, "caught"),
    ("linf_hard", "thresh", "output = input - soft_thresh(eps, input)", "output = input - hard_thresh(eps, input)", 0, "caught"),
    # ---- psd_proj
    ("psd_eig", "thresh", "xp.linalg.eigh(", "xp.linalg.eig(", 0, "caught"),
    ("psd_no_conj_in_hermitian_part", "thresh", "(input + xp.conj(input).T) / 2", "(input + input.T) / 2", 0, "caught"),
    ("psd_not_halved", "thresh", "(input + xp.conj(input).T) / 2", "(input + xp.conj(input).T)", 0, "caught"),
    ("psd_clips_positive", "thresh", "w[w < 0] = 0", "w[w > 0] = 0", 0, "caught"),
    ("psd_no_conj_in_product", "thresh", "(v * w) @ v.conjugate().T", "(v * w) @ v.T", 0, "caught"),
    ("psd_not_transposed", "thresh", "(v * w) @ v.conjugate().T", "(v * w) @ v.conjugate()", 0, "caught"),
    # ---- prox.py
    ("conj_inner_step", "prox", "self.prox(1 / alpha, input / alpha)", "self.prox(alpha, input / alpha)", 0, "caught"),
    ("conj_plus", "prox", "return input - alpha * self.prox(", "return input + alpha * self.prox(", 0, "caught"),
    ("conj_input_not_scaled", "prox", "self.prox(1 / alpha, input / alpha)", "self.prox(1 / alpha, input)", 0, "caught"),
    ("l2reg_no_copy", "prox", "output = input.copy()", "output = input", 0, "caught"),
    ("l2reg_denominator", "prox", "output /= 1 + self.lamda * alpha", "output /= 1 + self.lamda", 0, "caught"),
    ("l2reg_proxh_step", "prox", "self.proxh(alpha / (1 + self.lamda * alpha), output)", "self.proxh(alpha, output)", 0, "caught"),
    ("l2reg_y_sign", "prox", "output += (self.lamda * alpha) * self.y", "output -= (self.lamda * alpha) * self.y", 0, "caught"),
    ("l2reg_y_without_alpha", "prox", "output += (self.lamda * alpha) * self.y", "output += self.lamda * self.y", 0, "caught"),
    ("l2proj_bias_not_restored", "prox", "input - self.y, self.axes)\n                + self.y\n", "input - self.y, self.axes)\n", 0, "caught"),
    ("l2proj_axes_dropped", "prox", "input - self.y, self.axes)", "input - self.y)", 0, "caught"),
    ("linfproj_bias_dropped", "prox", "thresh.linf_proj(self.epsilon, input, bias=self.bias)", "thresh.linf_proj(self.epsilon, input)", 0, "caught"),
    ("l1reg_without_alpha", "prox", "thresh.soft_thresh(self.lamda * alpha, input)", "thresh.soft_thresh(self.lamda, input)", 0, "caught"),
    ("l1reg_hard", "prox", "thresh.soft_thresh(self.lamda * alpha, input)", "thresh.hard_thresh(self.lamda * alpha, input)", 0, "caught"),
    ("box_bounds_swapped", "prox", "xp.clip(input, self.lower, self.upper)", "xp.clip(input, self.upper, self.lower)", 0, "caught"),
    ("box_init_swapped", "prox", "        self.lower = lower\n        self.upper = upper\n", "        self.lower = upper\n        self.upper = lower\n", 0, "caught"),
    ("stack_alpha_never_split", "prox", "alphas = util.split(alpha, self.shapes)", "alphas = [alpha] * self.nops", 0, "caught"),
    ("stack_zip_order", "prox", "zip(self.proxs, inputs, alphas)", "zip(self.proxs, alphas, inputs)", 0, "caught"),
    ("stack_call_args_swapped", "prox", "                prox(alpha, input)\n", "                prox(input, alpha)\n", 0, "caught"),
    ("stack_shape_len", "prox", "sum(util.prod(prox.shape) for prox in proxs)", "sum(len(prox.shape) for prox in proxs)", 0, "caught"),
    ("unitary_A_and_AH_swapped", "prox", "self.A.H(self.prox(alpha, self.A(input)))", "self.A(self.prox(alpha, self.A.H(input)))", 0, "caught"),
    ("unitary_no_adjoint", "prox", "self.A.H(self.prox(alpha, self.A(input)))", "self.A(self.prox(alpha, self.A(input)))", 0, "caught"),
    ("unitary_shape_oshape", "prox", "super().__init__(A.ishape)", "super().__init__(A.oshape)", 0, "caught"),
    ("conj_shape_wrong", "prox", "        self.prox = prox\n        super().__init__(prox.shape)", "        self.prox = prox\n        super().__init__([util.prod(prox.shape)])", 0, "caught"),
    ("prox_call_args_swapped", "prox", "output = self._prox(alpha, input)", "output = self._prox(input, alpha)", 0, "caught"),
    ("util_split_off_by_one", "util", "        vec = vec[osize:]\n", "        vec = vec[osize + 1:]\n", 0, "caught"),
    ("util_axes_not_reduced", "util", "return tuple(a % ndim for a in sorted(axes))", "return tuple(a for a in sorted(axes))", 0, "caught"),
    # ---- semantics-preserving edits that keep the term: the tie must survive them
    ("neutral_rename_local", "thresh", "abs_input", "magnitude", -1, "pass"),
    ("neutral_rename_output", "thresh", "output", "out", -1, "pass"),
    ("neutral_comment_docstring", "thresh", "    mag = abs_input - lamda\n", "    # shrink\n    mag = abs_input - lamda  # may be negative\n", 0, "pass"),
    ("neutral_unused_local", "thresh", "    xp = backend.get_array_module(input)\n    norm = ", "    xp = backend.get_array_module(input)\n    nd = input.ndim\n    norm = ", 0, "pass"),
    ("neutral_prox_docstring", "prox", "    def _prox(self, alpha, input):\n        with backend.get_device(input):\n            return input - alpha",
     "    def _prox(self, alpha, input):\n        \"\"\"Moreau.\"\"\"\n        with backend.get_device(input):\n            return input - alpha", 0, "pass"),
    ("neutral_extra_copy", "prox", "output = input.copy()", "output = input.copy().copy()", 0, "pass"),
    # ---- harmless refactors that change the TERM: reported too (accepted; the check then relies on correspondence + oracles)
    ("refactor_mag_commuted", "thresh", "mag = (abs(mag) + mag) / 2", "mag = (mag + abs(mag)) / 2", 0, "breaks"),
    ("refactor_division_as_product", "prox", "self.prox(1 / alpha, input / alpha)", "self.prox(1 / alpha, input * (1 / alpha))", 0, "breaks"),
    ("refactor_kernel_else_dropped", "thresh", "        return input\n    else:\n        return 0\n", "        return input\n    return 0\n", 0, "pass"),
]


def nth_replace(text, old, new, k):
    if k == -1:
        assert old in text, old
        return text.replace(old, new)
    idx = -1
    for _ in range(k + 1):
        idx = text.find(old, idx + 1)
        if idx < 0:
            raise AssertionError("pattern not found (occurrence %d): %r" % (k, old))
    return text[:idx] + new + text[idx + len(old):]


def compile_gen(path):
    p = subprocess.run(["coqc", "-w", "-all", "-Q", core.COQ, "SV", path], cwd=os.path.dirname(path),
                       stdout=subprocess.PIPE, stderr=subprocess.STDOUT, text=True, timeout=600)
    return p.returncode, p.stdout


def one(name, srcs):
    d = os.path.join(SCRATCH, name.replace(":", "_"))
    shutil.rmtree(d, ignore_errors=True)
    os.makedirs(os.path.join(d, "sigpy"))
    for k, fn in FILES.items():
        with open(os.path.join(d, "sigpy", fn), "w") as f:
            f.write(srcs[k])
    try:
        text = T.translate_prox(d)              # reads <d>/sigpy/{thresh,prox,util}.py
    except T.TranslationError as e:
        return ("fails closed", str(e))
    except SyntaxError as e:
        return ("fails closed", "SyntaxError: %s" % e)
    path = os.path.join(d, "Gen_prox.v")
    with open(path, "w") as f:
        f.write(text)
    rc, out = compile_gen(path)
    if rc == 0:
        return ("ok", "")
    return ("lemma fails", str(T.failing_lemma(text, out)))


def seeded_patches(src0):
    """the seeded defects of /verif/seeded that touch only thresh.py / prox.py / util.py (informational)"""
    out = []
    root = os.path.join(core.VERIF, "seeded")
    allowed = {"sigpy/" + f for f in FILES.values()}
    for name in sorted(os.listdir(root)) if os.path.isdir(root) else []:
        patch = os.path.join(root, name, "patch.diff")
        if not os.path.exists(patch):
            continue
        files = [l.split()[1][2:] for l in open(patch) if l.startswith("+++ ")]
        if not files or not set(files) <= allowed or not (set(files) & {"sigpy/thresh.py", "sigpy/prox.py"}):
            continue
        d = os.path.join(SCRATCH, "seeded_src_" + name)
        shutil.rmtree(d, ignore_errors=True)
        os.makedirs(os.path.join(d, "sigpy"))
        for k, fn in FILES.items():
            open(os.path.join(d, "sigpy", fn), "w").write(src0[k])
        p = subprocess.run(["patch", "-p1", "-s", "--no-backup-if-mismatch", "-d", d, "-i", patch],
                           stdout=subprocess.PIPE, stderr=subprocess.STDOUT, text=True)
        if p.returncode:
            continue
        out.append(("seeded:" + name, {k: open(os.path.join(d, "sigpy", fn)).read() for k, fn in FILES.items()}, "info"))
        shutil.rmtree(d, ignore_errors=True)
    return out


def main():
    pos = [a for a in sys.argv[1:] if not a.startswith("--")]
    repo = pos[0] if pos else core.REPO
    t0 = time.time()
    ok, log = core.coq_make(["model/Prox.vo"], timeout=900)
    if not ok:
        print("cannot build the hand model:\n" + log[-1500:])
        return 2
    src0 = dict(zip(("thresh", "prox", "util"), T.read_sources(repo)))
    jobs = [("UNMODIFIED", src0, "pass")]
    for name, which, old, new, k, expect in MUTATIONS:
        s = dict(src0)
        s[which] = nth_replace(s[which], old, new, k)
        jobs.append((name, s, expect))
    if "--no-seeded" not in sys.argv:
        jobs += seeded_patches(src0)
    with concurrent.futures.ThreadPoolExecutor(max_workers=8) as ex:
        results = list(ex.map(lambda j: one(j[0], j[1]), jobs))
    bad = 0
    stats = {}
    print("%-34s %-8s %-9s %s" % ("mutation", "expected", "verdict", "how"))
    for (name, _, expect), (how, detail) in zip(jobs, results):
        verdict = "pass" if how == "ok" else "caught"
        good = expect == "info" or verdict == {"caught": "caught", "breaks": "caught", "pass": "pass"}[expect]
        bad += 0 if good else 1
        stats[(expect, how)] = stats.get((expect, how), 0) + 1
        print("%-34s %-8s %-9s %s%s" % (name, expect, verdict + ("" if good else " (!!)"), how, (": " + detail[:200]) if detail else ""))
    print("%d cases, %d unexpected, %.1fs; %s" % (len(jobs), bad, time.time() - t0,
                                                 ", ".join("%s/%s: %d" % (k[0], k[1], v) for k, v in sorted(stats.items()))))
    return 1 if bad else 0


if __name__ == "__main__":
    sys.exit(main())
