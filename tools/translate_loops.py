#!/usr/bin/env python3
"""Fail-closed translator: numba loop kernels (Python `ast`) -> LoopIR nests (Coq).

Accepted statement forms (anything else raises TranslationError):
    for v in range(a[, b[, c]]): body
    name = <int expr>                      -> LetZ
    name = <coordinate expr>               -> inlined real-valued let
    a, b = e1, e2                          -> the two lets in order
    if <cond>: body                        (no else)
    out[idx...] += <rhs>                   -> Accum
    out[idx...]  = <rhs>                   -> Assign
    return <name>                          (ignored: kernels return their output argument)
    n1, n2 = arr.shape / n = arr.shape[0]  -> shape lets
Expressions: integer arithmetic (+ - * // %), comparisons, and/or, arr.shape[k],
array reads arr[i, j, ...]; for coordinate-typed kernels also / , np.ceil, np.floor,
calls of the interpolation kernel.

Every expression site is emitted as  `fun e => let v0 := var 0 e in ... <expr>`  so the
generated text shows the Python variable names; loop structure is the deep part.
"""
import ast
import hashlib
import sys


class TranslationError(Exception):
    pass


RESERVED = {"by", "at", "in", "as", "end", "fun", "let", "if", "then", "else", "with", "using", "return",
            "fix", "cofix", "match", "forall", "exists", "where", "for", "mod", "e", "env", "var", "R", "Set",
            "Prop", "Type", "IF", "nest", "input_shape", "output_shape"}


def mangle(name):
    return name + "_" if name in RESERVED else name


class Kernel:
    """Translate one FunctionDef."""

    def __init__(self, fn, out_name, arrays, int_params, real=False, coord_arrays=(), kernel_name=None):
        self.fn = fn
        self.out = out_name
        self.arrays = list(arrays)            # array params read in rhs (K-valued)
        self.coord_arrays = list(coord_arrays)  # coordinate-valued arrays (coord, width, param)
        self.int_params = list(int_params)
        self.real = real
        self.kernel_name = kernel_name

    # ---- environment: list of (name, kind) ; kind in {'int','real'} --------------
    def site(self, scope, body):
        ints = [(n, k) for n, k, _ in scope if k == "int"]
        depth = len(ints)
        lets = []
        i = 0
        for n, k, expr in scope:
            if k == "int":
                lets.append("let %s := var %d e in" % (mangle(n), depth - 1 - i))
                i += 1
            else:
                lets.append("let %s := %s in" % (mangle(n), expr))
        return "(fun e : env => %s %s)" % (" ".join(lets), body)

    # ---- expressions ----------------------------------------------------------------
    def is_real(self, node, scope):
        """Does the expression have coordinate (real) type?"""
        if isinstance(node, ast.Constant):
            return isinstance(node.value, float)
        if isinstance(node, ast.Name):
            for n, k, _ in reversed(scope):
                if n == node.id:
                    return k == "real"
            return False
        if isinstance(node, ast.BinOp):
            if isinstance(node.op, ast.Div):
                return True
            return self.is_real(node.left, scope) or self.is_real(node.right, scope)
        if isinstance(node, ast.UnaryOp):
            return self.is_real(node.operand, scope)
        if isinstance(node, ast.Subscript):
            base = node.value
            if isinstance(base, ast.Name) and base.id in self.coord_arrays:
                return True
            return False
        if isinstance(node, ast.Call):
            f = call_name(node)
            if f in ("np.ceil", "np.floor"):
                return False
            if f == "kernel":
                return True
            if f == "abs":
                return self.is_real(node.args[0], scope)
        return False

    def zexpr(self, node, scope):
        """integer-typed expression -> Gallina (Z)."""
        if isinstance(node, ast.Constant) and isinstance(node.value, int) and not isinstance(node.value, bool):
            return "(%d)" % node.value
        if isinstance(node, ast.Name):
            if node.id in self.int_params or any(n == node.id and k == "int" for n, k, _ in scope):
                return mangle(node.id)
            raise TranslationError("unknown integer name %s" % node.id)
        if isinstance(node, ast.UnaryOp) and isinstance(node.op, ast.USub):
            return "(- %s)" % self.zexpr(node.operand, scope)
        if isinstance(node, ast.BinOp):
            ops = {ast.Add: "+", ast.Sub: "-", ast.Mult: "*", ast.FloorDiv: "/", ast.Mod: "mod"}
            if type(node.op) not in ops:
                raise TranslationError("integer operator %s" % type(node.op).__name__)
            return "(%s %s %s)" % (self.zexpr(node.left, scope), ops[type(node.op)], self.zexpr(node.right, scope))
        if isinstance(node, ast.Subscript):
            # arr.shape[k]
            v = node.value
            if isinstance(v, ast.Attribute) and v.attr == "shape" and isinstance(v.value, ast.Name):
                k = const_int(node.slice)
                return "(shape_at %s_shape (%d))" % (v.value.id, k)
            raise TranslationError("integer subscript " + ast.dump(node))
        if isinstance(node, ast.Call):
            f = call_name(node)
            if f == "np.ceil" and self.real:
                return "(cceil %s)" % self.cexpr(node.args[0], scope)
            if f == "np.floor" and self.real:
                return "(cfloor %s)" % self.cexpr(node.args[0], scope)
        raise TranslationError("integer expression " + ast.dump(node))

    def cexpr(self, node, scope):
        """coordinate-typed expression -> Gallina (C)."""
        if not self.real:
            raise TranslationError("real expression in integer kernel")
        if not self.is_real(node, scope):
            return "(cofZ %s)" % self.zexpr(node, scope)
        if isinstance(node, ast.Constant):
            raise TranslationError("float literal %r" % node.value)
        if isinstance(node, ast.Name):
            return mangle(node.id)
        if isinstance(node, ast.BinOp):
            ops = {ast.Add: "cadd", ast.Sub: "csub", ast.Mult: "cmul", ast.Div: "cdiv"}
            if type(node.op) not in ops:
                raise TranslationError("real operator %s" % type(node.op).__name__)
            return "(%s %s %s)" % (ops[type(node.op)], self.cexpr(node.left, scope), self.cexpr(node.right, scope))
        if isinstance(node, ast.Subscript):
            base = node.value
            if isinstance(base, ast.Name) and base.id in self.coord_arrays:
                return "(%s %s)" % (base.id, self.index_list(node.slice, scope, base.id))
        if isinstance(node, ast.Call) and call_name(node) == "kernel":
            if len(node.args) != 2:
                raise TranslationError("kernel arity")
            return "(kern %s %s)" % (self.cexpr(node.args[0], scope), self.cexpr(node.args[1], scope))
        raise TranslationError("real expression " + ast.dump(node))

    def bexpr(self, node, scope):
        if isinstance(node, ast.BoolOp):
            op = "&&" if isinstance(node.op, ast.And) else "||"
            return "(" + (" %s " % op).join(self.bexpr(v, scope) for v in node.values) + ")"
        if isinstance(node, ast.Compare) and len(node.ops) == 1:
            ops = {ast.Lt: "<?", ast.LtE: "<=?", ast.Gt: ">?", ast.GtE: ">=?", ast.Eq: "=?"}
            if type(node.ops[0]) not in ops:
                raise TranslationError("comparison " + ast.dump(node))
            return "(%s %s %s)" % (self.zexpr(node.left, scope), ops[type(node.ops[0])],
                                   self.zexpr(node.comparators[0], scope))
        raise TranslationError("condition " + ast.dump(node))

    def index_list(self, sl, scope, arr=None):
        elts = sl.elts if isinstance(sl, ast.Tuple) else [sl]
        items = []
        for k, e in enumerate(elts):
            if isinstance(e, ast.UnaryOp) and isinstance(e.op, ast.USub) and isinstance(e.operand, ast.Constant):
                # negative literal index: python wrap-around resolved against the array's shape
                if arr is None:
                    raise TranslationError("negative index without array")
                items.append("(shape_at %s_shape %d + (%d))" % (arr, k, -e.operand.value))
            else:
                items.append(self.zexpr(e, scope))
        return "[" + "; ".join(items) + "]"

    def rhs(self, node, scope):
        """K-valued right-hand side: array reads, products with real weights."""
        if isinstance(node, ast.Subscript) and isinstance(node.value, ast.Name) and node.value.id in self.arrays:
            return "(%s %s)" % (node.value.id, self.index_list(node.slice, scope, node.value.id))
        if isinstance(node, ast.BinOp) and isinstance(node.op, ast.Mult) and self.real:
            if self.is_real(node.left, scope):
                return "(mul (wt %s) %s)" % (self.cexpr(node.left, scope), self.rhs(node.right, scope))
        raise TranslationError("rhs " + ast.dump(node))

    # ---- statements -------------------------------------------------------------------
    def block(self, stmts, scope):
        if not stmts:
            return "Skip"
        s, rest = stmts[0], stmts[1:]
        if isinstance(s, ast.Return):
            if rest or not (isinstance(s.value, ast.Name) and s.value.id == self.out):
                raise TranslationError("return")
            return "Skip"
        if isinstance(s, ast.Expr) and isinstance(s.value, ast.Constant) and isinstance(s.value.value, str):
            return self.block(rest, scope)
        if isinstance(s, ast.For):
            if s.orelse or not isinstance(s.target, ast.Name):
                raise TranslationError("for form")
            it = s.iter
            if not (isinstance(it, ast.Call) and call_name(it) == "range" and 1 <= len(it.args) <= 3 and not it.keywords):
                raise TranslationError("for iterator " + ast.dump(it))
            a = it.args
            lo = self.zexpr(a[0], scope) if len(a) >= 2 else "0"
            hi = self.zexpr(a[1], scope) if len(a) >= 2 else self.zexpr(a[0], scope)
            st = self.zexpr(a[2], scope) if len(a) == 3 else "1"
            inner = self.block(s.body, scope + [(s.target.id, "int", None)])
            me = "(For %s %s %s\n %s)" % (self.site(scope, lo), self.site(scope, hi), self.site(scope, st), inner)
            return me if not rest or self.block(rest, scope) == "Skip" else "(Seq %s %s)" % (me, self.block(rest, scope))
        if isinstance(s, ast.If):
            if s.orelse:
                raise TranslationError("if/else")
            inner = self.block(s.body, scope)
            me = "(If %s\n %s)" % (self.site(scope, self.bexpr(s.test, scope)), inner)
            return me if not rest or self.block(rest, scope) == "Skip" else "(Seq %s %s)" % (me, self.block(rest, scope))
        if isinstance(s, ast.Assign) and len(s.targets) == 1:
            t = s.targets[0]
            if isinstance(t, ast.Tuple) and isinstance(s.value, ast.Tuple) and len(t.elts) == len(s.value.elts):
                new = [ast.Assign(targets=[a], value=b) for a, b in zip(t.elts, s.value.elts)]
                # python evaluates the whole right-hand side first: require independence
                names = {a.id for a in t.elts if isinstance(a, ast.Name)}
                for b in s.value.elts:
                    for n in ast.walk(b):
                        if isinstance(n, ast.Name) and n.id in names:
                            raise TranslationError("tuple assignment with dependent sides")
                return self.block(new + rest, scope)
            if isinstance(t, ast.Tuple) and isinstance(s.value, ast.Attribute) and s.value.attr == "shape":
                arr = s.value.value.id
                new = [ast.Assign(targets=[a], value=ast.Subscript(value=s.value, slice=ast.Constant(value=k)))
                       for k, a in enumerate(t.elts)]
                self.shape_rank = getattr(self, "shape_rank", {})
                self.shape_rank[arr] = len(t.elts)
                return self.block(new + rest, scope)
            if isinstance(t, ast.Name):
                if self.real and self.is_real(s.value, scope):
                    return self.block(rest, scope + [(t.id, "real", self.cexpr(s.value, scope))])
                e = self.zexpr(s.value, scope)
                return "(LetZ %s\n %s)" % (self.site(scope, e), self.block(rest, scope + [(t.id, "int", None)]))
            if isinstance(t, ast.Subscript) and isinstance(t.value, ast.Name) and t.value.id == self.out:
                if rest and self.block(rest, scope) != "Skip":
                    raise TranslationError("statement after store")
                return "(Assign %s %s)" % (self.site(scope, self.index_list(t.slice, scope, self.out)),
                                           self.site(scope, self.rhs(s.value, scope)))
        if isinstance(s, ast.AugAssign) and isinstance(s.op, ast.Add):
            t = s.target
            if isinstance(t, ast.Subscript) and isinstance(t.value, ast.Name) and t.value.id == self.out:
                if rest and self.block(rest, scope) != "Skip":
                    raise TranslationError("statement after store")
                return "(Accum %s %s)" % (self.site(scope, self.index_list(t.slice, scope, self.out)),
                                          self.site(scope, self.rhs(s.value, scope)))
        raise TranslationError("statement " + ast.dump(s)[:200])

    def emit(self, name):
        body = self.block(self.fn.body, [])
        params = ["(R : Ops)"] if not self.real else []
        cT = "C"
        for a in self.arrays:
            params.append("(%s : list Z -> R)" % a)
        for a in self.coord_arrays:
            params.append("(%s : list Z -> C)" % a)
        shapes = sorted(set([self.out] + self.arrays + self.coord_arrays))
        params.append("(%s : list Z)" % " ".join(s + "_shape" for s in shapes))
        if self.int_params:
            params.append("(%s : Z)" % " ".join(mangle(p) for p in self.int_params))
        return "Definition %s %s : nest R :=\n %s.\n" % (name, " ".join(params), body)


def call_name(node):
    f = node.func
    if isinstance(f, ast.Name):
        return f.id
    if isinstance(f, ast.Attribute) and isinstance(f.value, ast.Name):
        return "%s.%s" % (f.value.id, f.attr)
    return None


def const_int(node):
    if isinstance(node, ast.Constant) and isinstance(node.value, int):
        return node.value
    if isinstance(node, ast.UnaryOp) and isinstance(node.op, ast.USub) and isinstance(node.operand, ast.Constant):
        return -node.operand.value
    raise TranslationError("constant index expected: " + ast.dump(node))


def find_functions(tree):
    out = {}
    for node in ast.walk(tree):
        if isinstance(node, ast.FunctionDef):
            out.setdefault(node.name, node)
    return out


HEADER = """(* %s — GENERATED by tools/translate_loops.py from %s (sha256 %s). Do not edit. *)
From Coq Require Import ZArith List Bool.
From SV Require Import lib.Scalar lib.BigSum lib.LoopIR.
Import ListNotations.
Local Open Scope Z_scope.

Definition shape_at (s : list Z) (k : Z) : Z :=
  nth (Z.to_nat (if k <? 0 then Z.of_nat (length s) + k else k)) s 0.

"""


def translate_block(repo):
    path = repo + "/sigpy/block.py"
    src = open(path).read()
    sha = hashlib.sha256(src.encode()).hexdigest()
    fns = find_functions(ast.parse(src))
    out = [HEADER % ("Gen_block.v", "sigpy/block.py", sha)]
    for d in (1, 2, 3):
        for base in ("_array_to_blocks", "_blocks_to_array"):
            name = "%s%d" % (base, d)
            if name not in fns:
                raise TranslationError("missing kernel " + name)
            fn = fns[name]
            args = [a.arg for a in fn.args.args]
            if args[:3] != ["output", "input", "batch_size"]:
                raise TranslationError("%s: unexpected signature %s" % (name, args))
            k = Kernel(fn, "output", ["input"], args[2:])
            out.append(k.emit("k" + name))
    return "\n".join(out)


if __name__ == "__main__":
    sys.stdout.write(translate_block(sys.argv[1] if len(sys.argv) > 1 else "/repo"))


# ---------------------------------------------------------------------------------------------
# scalar kernel functions (if / elif / return chains over coordinate-typed values)
class ScalarFn:
    def __init__(self, fn):
        self.fn = fn
        self.args = [a.arg for a in fn.args.args]

    def expr(self, node):
        if isinstance(node, ast.Constant) and isinstance(node.value, (int, float)) and not isinstance(node.value, bool):
            if isinstance(node.value, int):
                return "(cofZ (%d))" % node.value
            raise TranslationError("float literal %r in scalar kernel" % node.value)
        if isinstance(node, ast.Name) and node.id in self.args:
            return mangle(node.id)
        if isinstance(node, ast.Call) and call_name(node) == "abs" and len(node.args) == 1:
            return "(cabs %s)" % self.expr(node.args[0])
        if isinstance(node, ast.BinOp):
            if isinstance(node.op, ast.Pow):
                if isinstance(node.right, ast.Constant) and node.right.value == 2:
                    e = self.expr(node.left)
                    return "(cmul %s %s)" % (e, e)
                raise TranslationError("power other than 2")
            ops = {ast.Add: "cadd", ast.Sub: "csub", ast.Mult: "cmul", ast.Div: "cdiv"}
            if type(node.op) not in ops:
                raise TranslationError("scalar operator %s" % type(node.op).__name__)
            return "(%s %s %s)" % (ops[type(node.op)], self.expr(node.left), self.expr(node.right))
        raise TranslationError("scalar expression " + ast.dump(node))

    def cond(self, node):
        if isinstance(node, ast.Compare) and len(node.ops) == 1:
            l, r = self.expr(node.left), self.expr(node.comparators[0])
            op = node.ops[0]
            if isinstance(op, ast.Gt):
                return "(cltb %s %s)" % (r, l)
            if isinstance(op, ast.Lt):
                return "(cltb %s %s)" % (l, r)
            if isinstance(op, ast.Eq):
                return "(ceqb %s %s)" % (l, r)
        raise TranslationError("scalar condition " + ast.dump(node))

    def block(self, stmts):
        """statements -> expression; falling off the end yields 0 (python would return None)"""
        if not stmts:
            return "(cofZ 0)"
        s, rest = stmts[0], stmts[1:]
        if isinstance(s, ast.Expr) and isinstance(s.value, ast.Constant) and isinstance(s.value.value, str):
            return self.block(rest)
        if isinstance(s, ast.Return):
            return self.expr(s.value)
        if isinstance(s, ast.If):
            then = self.block(s.body)
            # `if c: return a` followed by more statements == if c then a else <rest>
            els = self.block(s.orelse) if s.orelse else self.block(rest)
            if s.orelse and rest:
                raise TranslationError("statements after if/else")
            return "(if %s then %s else %s)" % (self.cond(s.test), then, els)
        raise TranslationError("scalar statement " + ast.dump(s)[:120])

    def emit(self, name):
        return "Definition %s (%s : C) : C :=\n  %s.\n" % (name, " ".join(mangle(a) for a in self.args), self.block(self.fn.body))


INTERP_HEADER = """(* %s — GENERATED by tools/translate_loops.py from %s (sha256 %s). Do not edit. *)
From Coq Require Import ZArith List Bool.
From SV Require Import lib.Scalar lib.BigSum lib.LoopIR lib.Coord.
Import ListNotations.
Local Open Scope Z_scope.

Definition ishape_at (s : list Z) (k : Z) : Z :=
  nth (Z.to_nat (if k <? 0 then Z.of_nat (length s) + k else k)) s 0.
Notation shape_at := ishape_at.

Section Gen.
  Variable R : Ops.
  Variable C : COps.
  Variable kern : C -> C -> C.     (* the interpolation kernel K(t, param) *)
  Variable wt : C -> R.            (* embedding of a real weight into the data scalars *)

"""


def translate_interp(repo):
    path = repo + "/sigpy/interp.py"
    src = open(path).read()
    sha = hashlib.sha256(src.encode()).hexdigest()
    tree = ast.parse(src)
    fns = find_functions(tree)
    out = [INTERP_HEADER % ("Gen_interp.v", "sigpy/interp.py", sha)]
    if "_spline_kernel" not in fns:
        raise TranslationError("missing _spline_kernel")
    out.append(ScalarFn(fns["_spline_kernel"]).emit("spline_kernel"))
    for d in (1, 2, 3):
        for base in ("_interpolate", "_gridding"):
            name = "%s%d" % (base, d)
            if name not in fns:
                raise TranslationError("missing kernel " + name)
            fn = fns[name]
            args = [a.arg for a in fn.args.args]
            if args != ["output", "input", "coord", "width", "param"]:
                raise TranslationError("%s: unexpected signature %s" % (name, args))
            k = Kernel(fn, "output", ["input"], [], real=True, coord_arrays=["coord", "width", "param"])
            out.append(k.emit("k" + name))
    out.append("End Gen.\n")
    # which functions _get_interpolate/_get_gridding select for each kernel name, and the KERNELS list
    return "\n".join(out)
