#!/usr/bin/env python3
"""Fail-closed translator: sigpy/wavelet.py (get_wavelet_shape, fwt, iwt) and the classes Wavelet / InverseWavelet of
sigpy/linop.py (__init__, _apply)  (Python `ast`) -> Gallina.

From the SOURCE TEXT of the two files it regenerates, on every run, the definitions

    gen_get_wavelet_shape, gen_fwt, gen_iwt,
    gen_Wavelet_init, gen_Wavelet_apply, gen_InverseWavelet_init, gen_InverseWavelet_apply

written over the PyWavelets environment record `pywt` of coq/model/WaveletPywt.v (wavedecn / coeffs_to_array /
array_to_coeffs / waverecn, call by call) and `resize` of model/Rearrange.v, each followed by a machine-checked lemma

    gen_<f>_ok : generated = hand model (model/Wavelet.v: wavelet_shape / fwt / iwt; model/OpaqueWavelet.v:
                 wavelet_init_shapes / orc_wavelet) instantiated with the composites cs_of / W_of / Wr_of of WaveletPywt.v

proved by `unfold ... ; reflexivity` only, plus lemmas that the keyword defaults are ("db4", None, None).  PyWavelets stays
an oracle: nothing is assumed about its values; the lemmas hold for EVERY environment P : pywt R and every Ops R, hence for
the section variables (W, Wr, cshape_of) the theorems of props/Prop_C10.v quantify over.

A change of the source (mode='periodization', a dropped axes=, level not passed on, a different padding formula, np.zeros(shape)
for np.zeros(zshape), a dropped resize, oshape / ishape swapped in super().__init__, ...) either is outside the accepted
fragment (TranslationError naming file, function, line: FAIL CLOSED) or produces a different term, and a lemma no longer
compiles.

How the code is read (notes/translate_wavelet.md):
  * straight-line symbolic execution; every assignment is a `let` (comment: source line);
  * an array is a pair (shape : list Z, data : list Z -> R): an array parameter `p` is the two binders `p_shape`, `p`;
    `a.shape` is the shape component; a wavedecn coefficient list is a pair (structure, values) (WaveletPywt.v);
  * `[e for i in s]` over a shape with e built from i, integer literals, + - * // %  ->  map (fun i => e) s;
  * pywt calls are bound to the PyWavelets signatures (positional or keyword, defaults filled in: mode='symmetric',
    level=None, axes=None, padding=0, output_format='wavedecn'); mode / output_format must be string literals;
  * the SHAPE of pywt.waverecn's result is an extra parameter `rshape` of the generated definition (as in model/Wavelet.v);
  * util.resize(a, s) -> resize (shape of a) s None None a; np.zeros(s) -> (s, fun _ => zero);
    backend.get_device / to_device / cpu_device and `with device:` -> nothing (the model is the CPU path);
  * classes: __init__ is executed symbolically (super().__init__ inlined from the text of Linop.__init__), `self.a` in
    _apply is the value __init__ assigned; inside _apply the input has shape self.ishape (Linop.apply checks it);
    wavelet.fwt / iwt / get_wavelet_shape called from linop.py are the generated gen_* definitions.

Entry points: translate_wavelet(repo) -> text of gen/Gen_wavelet.v; translate_sources(wavelet_src, linop_src); tie(ctx) for
props/C10.py; tools/test_translate_wavelet.py is the self-test.
"""
import ast
import hashlib
import os
import re
import sys


class TranslationError(Exception):
    pass


SRC_WAVELET = "sigpy/wavelet.py"
SRC_LINOP = "sigpy/linop.py"

# ---------------------------------------------------------------------------------------------
# kinds of symbolic values
# ---------------------------------------------------------------------------------------------
SHAPE, ARR, COEFFS, SLICES = "shape", "array", "coefficients", "coeff_slices"
WAVE, AXES, LEVEL = "wavelet name", "axes", "level"
DEVICE, TUP, STR, NONE, INT, MOD, SELF, SUPER, IGN = "device", "tuple", "str", "None", "int", "module", "self", "super()", "_"

COQ_TYPE = {SHAPE: "list Z", SLICES: "cslices P", WAVE: "Z", AXES: "option (list Z)", LEVEL: "option Z"}
FARR = "list Z -> R"

PARAM_KIND = {"input": ARR, "shape": SHAPE, "oshape": SHAPE, "ishape": SHAPE, "coeff_slices": SLICES,
              "wave_name": WAVE, "axes": AXES, "level": LEVEL}

KEYWORDS = {"by", "at", "in", "as", "end", "fun", "let", "if", "then", "else", "with", "using", "return", "fix", "cofix",
            "match", "forall", "exists", "exists2", "where", "for", "mod", "Set", "Prop", "Type", "SProp", "IF"}
# names the generated text uses: a Python name equal to one of them is refused
RESERVED = KEYWORDS | {
    "R", "P", "Z", "list", "option", "nat", "bool", "string", "map", "fst", "snd", "None", "Some", "nil", "cons", "zero",
    "resize", "zshape", "even_up", "wavelet_shape", "fwt", "iwt", "fwt_padded", "pywt", "cstruct", "cdata", "cslices",
    "wavedecn_struct", "wavedecn_data", "c2a_shape", "c2a_slices", "c2a_data", "a2c_data", "waverecn_data",
    "struct_of", "cs_of", "slices_of", "W_of", "Wr_of", "wavelet_defaults", "orc_wavelet", "wavelet_init_shapes",
    "Wavelet", "InverseWavelet", "rshape", "wshape"}
# module names / builtins the reading relies on
W_MODULES = {"np": "numpy", "pywt": "pywt", "backend": "sigpy.backend", "util": "sigpy.util"}
L_MODULES = {"backend": "sigpy.backend", "wavelet": "sigpy.wavelet"}

PYWT_SIGS = {          # PyWavelets 1.x
    "wavedecn": [("data", None), ("wavelet", None), ("mode", "symmetric"), ("level", "<None>"), ("axes", "<None>")],
    "waverecn": [("coeffs", None), ("wavelet", None), ("mode", "symmetric"), ("axes", "<None>")],
    "coeffs_to_array": [("coeffs", None), ("padding", 0), ("axes", "<None>")],
    "array_to_coeffs": [("arr", None), ("coeff_slices", None), ("output_format", "wavedecn")],
}
MODES = ["zero", "symmetric", "constant", "smooth", "periodic", "periodization", "reflect", "antisymmetric", "antireflect"]
FORMATS = ["wavedecn", "wavedec", "wavedec2"]

FUNCS = {              # wavelet.py: exact signatures (names and order are the public API; the classes call by keyword)
    "get_wavelet_shape": dict(params=["shape", "wave_name", "axes", "level"], ret=(SHAPE, SLICES)),
    "fwt": dict(params=["input", "wave_name", "axes", "level"], ret=ARR),
    "iwt": dict(params=["input", "oshape", "coeff_slices", "wave_name", "axes", "level"], ret=ARR),
}
CLASSES = {            # linop.py: constructor signatures (order = the constructor arguments of model/Linop.v)
    "Wavelet": dict(params=["ishape", "axes", "wave_name", "level"]),
    "InverseWavelet": dict(params=["oshape", "axes", "wave_name", "level"]),
}
COVERED_WAVELET = "get_wavelet_shape, fwt, iwt"
COVERED_LINOP = "Wavelet.__init__/_apply, InverseWavelet.__init__/_apply (+ Linop.__init__)"


class Val:
    __slots__ = ("kind", "term", "shape", "struct", "items", "lit")

    def __init__(self, kind, term=None, shape=None, struct=None, items=None, lit=None):
        self.kind, self.term, self.shape, self.struct, self.items, self.lit = kind, term, shape, struct, items, lit


def san(text):
    """Python source inside a Coq comment."""
    return " ".join(text.split()).replace("(*", "( *").replace("*)", "* )").replace('"', "'")


def zlit(n):
    return str(n) if n >= 0 else "(%d)" % n


def ident_ok(name):
    return bool(re.fullmatch(r"[A-Za-z_][A-Za-z0-9_]*", name)) and name not in RESERVED and not name.startswith("gen_") \
        and not re.fullmatch(r".*_\d+(_shape|_struct)?", name) and not name.endswith("__")


# ---------------------------------------------------------------------------------------------
# one function / method (symbolic execution of a straight-line body)
# ---------------------------------------------------------------------------------------------
class Frame:
    """translation state of one generated definition"""

    def __init__(self, tr, fname, where, modules):
        self.tr = tr                      # the Translator (generated functions, Linop.__init__)
        self.file = fname                 # for messages
        self.where = where
        self.modules = modules            # module names visible in the file
        self.locals = {}
        self.attrs = None                 # dict for `self.<a>` (methods)
        self.in_init = False
        self.cls = None
        self.lines = []
        self.counter = {}
        self.oracle = []                  # extra binders: shapes of opaque results
        self.result = None

    # ---- messages / names -------------------------------------------------------------------
    def err(self, node, msg):
        seg = ""
        try:
            seg = ast.unparse(node) if isinstance(node, ast.AST) else ""
        except Exception:
            pass
        raise TranslationError("%s, %s line %d: %s%s" % (self.where, self.file, getattr(node, "lineno", 0), msg,
                                                         (": `%s`" % " ".join(seg.split())[:150]) if seg else ""))

    def fresh(self, hint):
        hint = re.sub(r"[^A-Za-z0-9_]", "_", hint)
        k = self.counter.get(hint, 0) + 1
        self.counter[hint] = k
        return "%s_%d" % (hint, k)

    def emit(self, name, term, node, first=True):
        self.lines.append("let %s := %s in%s" % (name, term, ("   (* L%d: %s *)" % (node.lineno, san(ast.unparse(node)))) if first else ""))

    def new_oracle(self, hint):
        name = hint if hint not in self.oracle else "%s%d" % (hint, len(self.oracle) + 1)
        self.oracle.append(name)
        return name

    # ---- binding a value to a Python name -----------------------------------------------------
    def named(self, hint, v, node):
        """emit the `let`s that give value v the name hint; returns the value referring to the new names"""
        if v.kind in (SHAPE, SLICES, WAVE, AXES, LEVEL):
            n = self.fresh(hint)
            self.emit(n, v.term, node)
            return Val(v.kind, n)
        if v.kind == ARR:
            n = self.fresh(hint)
            self.emit(n + "_shape", v.shape, node)
            self.emit(n, v.term, node, first=False)
            return Val(ARR, n, shape=n + "_shape")
        if v.kind == COEFFS:
            n = self.fresh(hint)
            st = None
            if v.struct is not None:
                st = n + "_struct"
                self.emit(st, v.struct, node)
            self.emit(n, v.term, node, first=v.struct is None)
            return Val(COEFFS, n, struct=st)
        if v.kind in (DEVICE, NONE, STR, INT):
            return v                                          # nothing to emit
        self.err(node, "a value of kind %s is assigned to a variable" % v.kind)

    def bind_name(self, name, v, node):
        if name == "_":
            return
        # a local gets a numbered Coq name (<name>_<k>), so only its spelling and the names the reading relies on matter
        if not re.fullmatch(r"[A-Za-z_][A-Za-z0-9_]*", name) or name in self.modules or name in ("self", "super", "list", "_check_shape_positive"):
            self.err(node, "assignment to the name `%s` (clashes with the generated text or with a name the reading relies on)" % name)
        self.locals[name] = self.named(name, v, node)

    def bind_target(self, t, v, node):
        if isinstance(t, ast.Name):
            self.bind_name(t.id, v, node)
        elif isinstance(t, ast.Attribute) and isinstance(t.value, ast.Name) and t.value.id == "self" and self.attrs is not None \
                and self.locals.get("self") is not None and self.locals["self"].kind == SELF:
            if not self.in_init:
                self.err(node, "assignment to self.%s outside __init__" % t.attr)
            if not re.fullmatch(r"[A-Za-z_][A-Za-z0-9_]*", t.attr):
                self.err(node, "attribute name not understood")
            self.attrs[t.attr] = self.named("self_" + t.attr, v, node)
        else:
            self.err(node, "assignment target not understood")

    # ---- expressions --------------------------------------------------------------------------
    def zexpr(self, n, var):
        """integer expression of a list comprehension over a shape"""
        if isinstance(n, ast.Name):
            if n.id == var:
                return var
            self.err(n, "name other than the comprehension variable inside a shape comprehension")
        if isinstance(n, ast.Constant) and isinstance(n.value, int) and not isinstance(n.value, bool):
            return zlit(n.value)
        if isinstance(n, ast.BinOp):
            op = {ast.Add: "+", ast.Sub: "-", ast.Mult: "*", ast.FloorDiv: "/", ast.Mod: "mod"}.get(type(n.op))
            if op is None:
                self.err(n, "integer operator other than + - * // %")
            if op in ("/", "mod") and not (isinstance(n.right, ast.Constant) and isinstance(n.right.value, int)
                                           and not isinstance(n.right.value, bool) and n.right.value > 0):
                self.err(n, "// or % by something other than a positive integer literal")
            return "(%s %s %s)" % (self.zexpr(n.left, var), op, self.zexpr(n.right, var))
        self.err(n, "expression form not understood inside a shape comprehension")

    def ev(self, n):
        if isinstance(n, ast.Constant):
            if n.value is None:
                return Val(NONE)
            if isinstance(n.value, str):
                return Val(STR, lit=n.value)
            if isinstance(n.value, int) and not isinstance(n.value, bool):
                return Val(INT, lit=n.value)
            self.err(n, "constant not understood")
        if isinstance(n, ast.Name):
            if n.id in self.locals:
                return self.locals[n.id]
            if n.id in self.modules:
                return Val(MOD, lit=n.id)
            self.err(n, "unknown name (not a parameter, not assigned before, not a module of the reading)")
        if isinstance(n, ast.Attribute):
            # self.__class__.__name__  (Linop.__init__: the repr string)
            if n.attr == "__name__" and isinstance(n.value, ast.Attribute) and n.value.attr == "__class__" \
                    and isinstance(n.value.value, ast.Name) and n.value.value.id == "self" and self.cls:
                return Val(STR, lit=self.cls)
            v = self.ev(n.value)
            if v.kind == ARR and n.attr == "shape":
                return Val(SHAPE, v.shape)
            if v.kind == MOD and v.lit == "backend" and n.attr == "cpu_device":
                return Val(DEVICE)
            if v.kind == SELF:
                if n.attr in self.attrs:
                    return self.attrs[n.attr]
                self.err(n, "self.%s is not assigned in __init__ (before this point)" % n.attr)
            self.err(n, "attribute not understood")
        if isinstance(n, ast.ListComp):
            if len(n.generators) != 1:
                self.err(n, "comprehension with several generators")
            g = n.generators[0]
            if g.ifs or g.is_async or not isinstance(g.target, ast.Name):
                self.err(n, "comprehension with a condition / a target that is not a name")
            var = g.target.id
            if not ident_ok(var) or var in self.locals or var in self.modules:
                self.err(n, "comprehension variable `%s` clashes with a name in scope or with the generated text" % var)
            s = self.ev(g.iter)
            if s.kind != SHAPE:
                self.err(n, "comprehension over something that is not a shape")
            return Val(SHAPE, "(map (fun %s => %s) %s)" % (var, self.zexpr(n.elt, var), s.term))
        if isinstance(n, ast.Tuple):
            return Val(TUP, items=[self.ev(e) for e in n.elts])
        if isinstance(n, ast.Call):
            return self.call(n)
        self.err(n, "expression form not understood")

    # ---- calls --------------------------------------------------------------------------------
    def bind_args(self, n, sig, what):
        """positional + keyword arguments against a signature [(name, default)], default None = required.
        -> {name: ast node | ('default', value)}"""
        if any(isinstance(a, ast.Starred) for a in n.args) or any(k.arg is None for k in n.keywords):
            self.err(n, "* / ** arguments")
        if len(n.args) > len(sig):
            self.err(n, "too many positional arguments for %s" % what)
        got = {}
        for (name, _), a in zip(sig, n.args):
            got[name] = a
        names = [s[0] for s in sig]
        for k in n.keywords:
            if k.arg not in names:
                self.err(n, "%s has no parameter `%s`" % (what, k.arg))
            if k.arg in got:
                self.err(n, "parameter `%s` of %s given twice" % (k.arg, what))
            got[k.arg] = k.value
        for name, d in sig:
            if name not in got:
                if d is None:
                    self.err(n, "required argument `%s` of %s missing" % (name, what))
                got[name] = ("default", d)
        return got

    def arg(self, got, name):
        a = got[name]
        if isinstance(a, tuple):
            d = a[1]
            return Val(NONE) if d == "<None>" else (Val(STR, lit=d) if isinstance(d, str) else Val(INT, lit=d))
        return self.ev(a)

    def want(self, v, kind, node, what):
        if v.kind != kind:
            self.err(node, "%s: a value of kind `%s` where `%s` is expected" % (what, v.kind, kind))
        return v

    def t_axes(self, v, node, what):
        if v.kind == NONE:
            return "None"
        return self.want(v, AXES, node, what + " axes").term

    def t_level(self, v, node, what):
        if v.kind == NONE:
            return "None"
        if v.kind == INT:
            return "(Some %s)" % zlit(v.lit)
        return self.want(v, LEVEL, node, what + " level").term

    def t_mode(self, v, node, what):
        self.want(v, STR, node, what + " mode (a string literal)")
        if v.lit not in MODES:
            self.err(node, "%s: unknown PyWavelets mode %r" % (what, v.lit))
        return "mode_" + v.lit

    def call(self, n):
        f = n.func
        # ---- module.function -------------------------------------------------------------------
        if isinstance(f, ast.Attribute) and isinstance(f.value, ast.Name) and f.value.id in self.modules \
                and f.value.id not in self.locals:
            mod, name = f.value.id, f.attr
            if mod == "pywt" and name in PYWT_SIGS:
                return self.pywt_call(n, name)
            if mod == "np" and name == "zeros":
                if n.keywords or len(n.args) != 1:
                    self.err(n, "np.zeros with other than one argument (the shape)")
                s = self.want(self.ev(n.args[0]), SHAPE, n, "np.zeros")
                return Val(ARR, "(fun _ : list Z => @zero R)", shape=s.term)
            if mod == "util" and name == "resize":
                if n.keywords or len(n.args) != 2:
                    self.err(n, "util.resize with other than (array, shape): ishift / oshift are not in the model")
                a = self.want(self.ev(n.args[0]), ARR, n, "util.resize input")
                s = self.want(self.ev(n.args[1]), SHAPE, n, "util.resize oshape")
                return Val(ARR, "(resize %s %s None None %s)" % (a.shape, s.term, a.term), shape=s.term)
            if mod == "backend" and name == "get_device":
                if n.keywords or len(n.args) != 1:
                    self.err(n, "backend.get_device takes one argument")
                self.want(self.ev(n.args[0]), ARR, n, "backend.get_device")
                return Val(DEVICE)
            if mod == "backend" and name == "to_device":
                if n.keywords or len(n.args) != 2:
                    self.err(n, "backend.to_device with other than (array, device)")
                a = self.want(self.ev(n.args[0]), ARR, n, "backend.to_device input")
                self.want(self.ev(n.args[1]), DEVICE, n, "backend.to_device device")
                return a                                      # the model is the CPU path: a copy with the same values
            if mod == "wavelet" and name in FUNCS:
                return self.gen_call(n, name)
            self.err(n, "call of %s.%s not understood" % (mod, name))
        # ---- builtins of Linop.__init__ ----------------------------------------------------------
        if isinstance(f, ast.Name) and f.id == "list" and "list" not in self.locals:
            if n.keywords or len(n.args) != 1:
                self.err(n, "list() with other than one argument")
            return self.want(self.ev(n.args[0]), SHAPE, n, "list()")           # list(shape): the same sequence of ints
        self.err(n, "call not understood")

    def pywt_call(self, n, name):
        got = self.bind_args(n, PYWT_SIGS[name], "pywt." + name)
        what = "pywt." + name
        if name == "wavedecn":
            d = self.want(self.arg(got, "data"), ARR, n, what + " data")
            w = self.want(self.arg(got, "wavelet"), WAVE, n, what + " wavelet")
            m = self.t_mode(self.arg(got, "mode"), n, what)
            lv = self.t_level(self.arg(got, "level"), n, what)
            ax = self.t_axes(self.arg(got, "axes"), n, what)
            tail = "%s %s %s %s" % (w.term, m, lv, ax)
            return Val(COEFFS, "(wavedecn_data P %s %s %s)" % (d.shape, d.term, tail), struct="(wavedecn_struct P %s %s)" % (d.shape, tail))
        if name == "coeffs_to_array":
            c = self.want(self.arg(got, "coeffs"), COEFFS, n, what + " coeffs")
            if c.struct is None:
                self.err(n, "coeffs_to_array of a coefficient list whose structure the model does not know (result of array_to_coeffs)")
            p = self.arg(got, "padding")
            if p.kind != INT or p.lit != 0:
                self.err(n, "coeffs_to_array with a padding other than 0")
            ax = self.t_axes(self.arg(got, "axes"), n, what)
            return Val(TUP, items=[Val(ARR, "(c2a_data P %s %s %s)" % (c.struct, c.term, ax), shape="(c2a_shape P %s %s)" % (c.struct, ax)),
                                   Val(SLICES, "(c2a_slices P %s %s)" % (c.struct, ax))])
        if name == "array_to_coeffs":
            a = self.want(self.arg(got, "arr"), ARR, n, what + " arr")
            s = self.want(self.arg(got, "coeff_slices"), SLICES, n, what + " coeff_slices")
            fm = self.want(self.arg(got, "output_format"), STR, n, what + " output_format (a string literal)")
            if fm.lit not in FORMATS:
                self.err(n, "unknown output_format %r" % fm.lit)
            return Val(COEFFS, "(a2c_data P %s %s fmt_%s)" % (a.term, s.term, fm.lit), struct=None)
        if name == "waverecn":
            c = self.want(self.arg(got, "coeffs"), COEFFS, n, what + " coeffs")
            w = self.want(self.arg(got, "wavelet"), WAVE, n, what + " wavelet")
            m = self.t_mode(self.arg(got, "mode"), n, what)
            ax = self.t_axes(self.arg(got, "axes"), n, what)
            return Val(ARR, "(waverecn_data P %s %s %s %s)" % (c.term, w.term, m, ax), shape=self.new_oracle("rshape"))
        raise AssertionError(name)

    def gen_call(self, n, name):
        """wavelet.<name>(...) from linop.py: the generated definition gen_<name>"""
        g = self.tr.generated.get(name)
        if g is None:
            self.err(n, "wavelet.%s was not translated" % name)
        got = self.bind_args(n, [(p, None if d is None else ("<dflt>", d)) for p, d in zip(g["params"], g["defaults"])], "wavelet." + name)
        args = [self.new_oracle(o) for o in g["oracle"]]
        for p in g["params"]:
            a = got[p]
            if isinstance(a, tuple):                          # a default of the callee: its value as a term
                d = a[1][1]
                kind = PARAM_KIND[p]
                if kind == AXES and d == "None":
                    args.append("None")
                elif kind == LEVEL and d == "None":
                    args.append("None")
                else:
                    self.err(n, "call of wavelet.%s relies on the default of `%s` (a string / a value the model has no term for)" % (name, p))
                continue
            v = self.ev(a)
            kind = PARAM_KIND[p]
            if kind == ARR:
                self.want(v, ARR, n, "wavelet.%s %s" % (name, p))
                args += [v.shape, v.term]
            elif kind == AXES:
                args.append(self.t_axes(v, n, "wavelet." + name))
            elif kind == LEVEL:
                args.append(self.t_level(v, n, "wavelet." + name))
            else:
                args.append(self.want(v, kind, n, "wavelet.%s %s" % (name, p)).term)
        r = self.fresh("call_" + name)
        self.emit(r, "(gen_%s %s)" % (name, " ".join(args)), n)
        if g["ret"] == ARR:
            return Val(ARR, "(snd %s)" % r, shape="(fst %s)" % r)
        return Val(TUP, items=[Val(g["ret"][0], "(fst %s)" % r), Val(g["ret"][1], "(snd %s)" % r)])

    # ---- statements -----------------------------------------------------------------------------
    def static_is_none(self, test):
        """`x is None` / `x is not None` on a value whose None-ness the translator knows"""
        if isinstance(test, ast.Compare) and len(test.ops) == 1 and isinstance(test.ops[0], (ast.Is, ast.IsNot)) \
                and isinstance(test.comparators[0], ast.Constant) and test.comparators[0].value is None:
            v = self.ev(test.left)
            if v.kind == NONE:
                r = True
            elif v.kind in (STR, INT, SHAPE, ARR):
                r = False
            else:
                self.err(test, "`is None` on a value of kind %s: not decidable by the translator" % v.kind)
            return r if isinstance(test.ops[0], ast.Is) else not r
        self.err(test, "condition not understood (the covered code is straight-line)")

    def run(self, stmts):
        """-> True when a return was executed"""
        for s in stmts:
            if isinstance(s, ast.Pass):
                continue
            if isinstance(s, ast.Expr) and isinstance(s.value, ast.Constant) and isinstance(s.value.value, str):
                continue
            if isinstance(s, ast.Expr) and isinstance(s.value, ast.Call):
                self.expr_call(s.value)
                continue
            if isinstance(s, ast.Assign):
                if len(s.targets) != 1:
                    self.err(s, "multiple assignment targets")
                t = s.targets[0]
                v = self.ev(s.value)
                if isinstance(t, (ast.Tuple, ast.List)):
                    if v.kind != TUP or len(v.items) != len(t.elts):
                        self.err(s, "unpacking of something that is not a tuple of %d values" % len(t.elts))
                    for e, x in zip(t.elts, v.items):
                        self.bind_target(e, x, s)
                else:
                    self.bind_target(t, v, s)
                continue
            if isinstance(s, ast.With):
                if len(s.items) != 1 or s.items[0].optional_vars is not None:
                    self.err(s, "`with` form not understood")
                self.want(self.ev(s.items[0].context_expr), DEVICE, s, "`with`")
                if self.run(s.body):
                    return True
                continue
            if isinstance(s, ast.If):
                if self.run(s.body if self.static_is_none(s.test) else s.orelse):
                    return True
                continue
            if isinstance(s, ast.Return):
                if s.value is None:
                    self.err(s, "return without a value")
                self.result = (self.ev(s.value), s)
                return True
            self.err(s, "statement form not understood (%s)" % type(s).__name__)
        return False

    def expr_call(self, c):
        f = c.func
        # super().__init__(oshape, ishape)
        if isinstance(f, ast.Attribute) and f.attr == "__init__" and isinstance(f.value, ast.Call) \
                and isinstance(f.value.func, ast.Name) and f.value.func.id == "super" and not f.value.args and not f.value.keywords:
            if not self.in_init or self.tr.linop_init is None or self.cls == "Linop":
                self.err(c, "super().__init__ outside a covered constructor")
            self.tr.inline_linop_init(self, c)
            return
        if isinstance(f, ast.Name) and f.id == "_check_shape_positive" and f.id not in self.locals:
            if c.keywords or len(c.args) != 1:
                self.err(c, "_check_shape_positive takes one argument")
            self.want(self.ev(c.args[0]), SHAPE, c, "_check_shape_positive")     # raises on a non-positive length: outside the model
            return
        self.err(c, "call statement not understood")


# ---------------------------------------------------------------------------------------------
# files
# ---------------------------------------------------------------------------------------------
def default_of(node, kind, where):
    """a keyword default as (python-ish text, Coq term)"""
    if kind == WAVE:
        if isinstance(node, ast.Constant) and isinstance(node.value, str) and re.fullmatch(r"[A-Za-z0-9_.]+", node.value):
            return node.value, '"%s"%%string' % node.value
    elif kind == AXES:
        if isinstance(node, ast.Constant) and node.value is None:
            return "None", "(@None (list Z))"
        if isinstance(node, (ast.Tuple, ast.List)) and all(isinstance(e, ast.Constant) and isinstance(e.value, int)
                                                            and not isinstance(e.value, bool) for e in node.elts):
            return "seq", "(Some [%s])" % "; ".join(zlit(e.value) for e in node.elts)
    elif kind == LEVEL:
        if isinstance(node, ast.Constant) and node.value is None:
            return "None", "(@None Z)"
        if isinstance(node, ast.Constant) and isinstance(node.value, int) and not isinstance(node.value, bool):
            return "int", "(Some %s)" % zlit(node.value)
    raise TranslationError("%s: default value not understood: `%s`" % (where, ast.unparse(node)))


def check_signature(fn, params, where, method=False):
    """exact parameter names; (wave_name, axes, level) must have defaults, the others must not.  -> defaults per parameter"""
    a = fn.args
    if a.vararg or a.kwarg or a.kwonlyargs or a.posonlyargs or a.kw_defaults or fn.decorator_list:
        raise TranslationError("%s: signature / decorators not understood" % where)
    names = [x.arg for x in a.args]
    if method:
        if not names or names[0] != "self":
            raise TranslationError("%s: first parameter is not `self`" % where)
        names = names[1:]
    if names != params:
        raise TranslationError("%s: parameters are (%s), the model's are (%s)" % (where, ", ".join(names), ", ".join(params)))
    nd = len(a.defaults)
    dflt = [None] * (len(names) - nd) + list(a.defaults)
    out = []
    for p, d in zip(names, dflt):
        kw = PARAM_KIND[p] in (WAVE, AXES, LEVEL)
        if kw != (d is not None):
            raise TranslationError("%s: parameter `%s` %s a default" % (where, p, "has no" if kw else "unexpectedly has"))
        out.append(None if d is None else default_of(d, PARAM_KIND[p], "%s, parameter %s" % (where, p)))
    return out


def no_nested(fn, where):
    for node in ast.walk(fn):
        if node is not fn and isinstance(node, (ast.FunctionDef, ast.AsyncFunctionDef, ast.Lambda, ast.ClassDef, ast.Global,
                                                ast.Nonlocal, ast.Yield, ast.YieldFrom, ast.Await, ast.NamedExpr)):
            raise TranslationError("%s line %d: nested definition / global / yield / walrus" % (where, node.lineno))


def module_facts(tree, fname, modules, watched, single_defs):
    """the module names the reading relies on are imported as expected and neither they nor `watched` are rebound at
    module level; every name of single_defs is defined exactly once at module level"""
    found = {}
    count = {k: 0 for k in single_defs}
    for node in ast.walk(tree):
        if isinstance(node, (ast.Import, ast.ImportFrom)):
            for a in node.names:
                if a.name == "*":
                    raise TranslationError("%s line %d: `import *`" % (fname, node.lineno))
                bound = a.asname or a.name.split(".")[0]
                full = a.name if isinstance(node, ast.Import) else "%s.%s" % (node.module, a.name)
                top = any(node is s for s in tree.body) and not (isinstance(node, ast.ImportFrom) and node.level != 0)
                if bound in modules and full == modules[bound] and top:
                    found[bound] = found.get(bound, 0) + 1
                elif bound in modules or bound in watched:
                    raise TranslationError("%s line %d: import rebinds `%s`" % (fname, node.lineno, bound))
        if isinstance(node, (ast.FunctionDef, ast.AsyncFunctionDef, ast.ClassDef)) and (node.name in modules or node.name in watched):
            if node.name in single_defs and any(node is s for s in tree.body) and not isinstance(node, ast.AsyncFunctionDef):
                count[node.name] += 1
            else:
                raise TranslationError("%s line %d: `%s` is (re)defined" % (fname, node.lineno, node.name))
        if isinstance(node, (ast.Global, ast.Nonlocal)) and set(node.names) & (set(modules) | watched):
            raise TranslationError("%s line %d: global / nonlocal on a name the reading relies on" % (fname, node.lineno))
    for m in modules:
        if found.get(m, 0) != 1:
            raise TranslationError("%s: `%s` is not imported exactly once as %s" % (fname, m, modules[m]))
    for k, c in count.items():
        if c != 1:
            raise TranslationError("%s defines %s %d times at module level" % (fname, k, c))

    def stores(node):
        for ch in ast.iter_child_nodes(node):
            if isinstance(ch, (ast.FunctionDef, ast.AsyncFunctionDef, ast.Lambda)):
                continue
            if isinstance(ch, ast.Name) and isinstance(ch.ctx, (ast.Store, ast.Del)) and (ch.id in modules or ch.id in watched):
                raise TranslationError("%s line %d: module-level name `%s` is rebound" % (fname, ch.lineno, ch.id))
            stores(ch)
    stores(tree)
    # attribute stores on the modules / classes from anywhere in the file (wavelet.fwt = ..., Wavelet._apply = ...)
    for node in ast.walk(tree):
        if isinstance(node, ast.Attribute) and isinstance(node.ctx, (ast.Store, ast.Del)) and isinstance(node.value, ast.Name) \
                and (node.value.id in modules or node.value.id in watched):
            raise TranslationError("%s line %d: attribute of `%s` is assigned" % (fname, node.lineno, node.value.id))
        if isinstance(node, ast.Call) and isinstance(node.func, ast.Name) and node.func.id in ("setattr", "delattr", "exec", "eval"):
            raise TranslationError("%s line %d: %s()" % (fname, node.lineno, node.func.id))


def binders(params, oracle, with_self_input=None):
    out = ["(%s : list Z)" % o for o in oracle]
    for p in params:
        k = PARAM_KIND[p]
        if k == ARR:
            out += ["(%s_shape : list Z)" % p, "(%s : %s)" % (p, FARR)]
        else:
            out.append("(%s : %s)" % (p, COQ_TYPE[k]))
    if with_self_input:
        out.append("(%s : %s)" % (with_self_input, FARR))
    return " ".join(out)


def binder_names(params, oracle, extra=()):
    out = list(oracle)
    for p in params:
        out += [p + "_shape", p] if PARAM_KIND[p] == ARR else [p]
    return out + list(extra)


class Translator:
    def __init__(self, wavelet_src, linop_src):
        self.wsrc, self.lsrc = wavelet_src, linop_src
        self.generated = {}
        self.linop_init = None
        self.out = []

    # ---- wavelet.py -------------------------------------------------------------------------------
    def frame_params(self, fr, params):
        for p in params:
            if not ident_ok(p) and p not in PARAM_KIND:
                raise TranslationError("%s: parameter name `%s` clashes with the generated text" % (fr.where, p))
            k = PARAM_KIND[p]
            fr.locals[p] = Val(ARR, p, shape=p + "_shape") if k == ARR else Val(k, p)

    def ret_term(self, fr, ret):
        if fr.result is None:
            raise TranslationError("%s: the body ends without a return" % fr.where)
        v, node = fr.result
        cm = "   (* L%d: %s *)" % (node.lineno, san(ast.unparse(node)))
        if ret == ARR:
            fr.want(v, ARR, node, "returned value")
            return "(%s, %s)%s" % (v.shape, v.term, cm), "list Z * (%s)" % FARR
        if v.kind != TUP or len(v.items) != 2:
            fr.err(node, "the returned value is not a pair")
        a = fr.want(v.items[0], ret[0], node, "first returned value")
        b = fr.want(v.items[1], ret[1], node, "second returned value")
        return "(%s, %s)%s" % (a.term, b.term, cm), "%s * %s" % (COQ_TYPE[ret[0]], COQ_TYPE[ret[1]])

    def defaults_lemma(self, gen, defaults, params):
        d = {p: x for p, x in zip(params, defaults) if x is not None}
        self.out.append("  Definition %s_defaults : string * option (list Z) * option Z := (%s, %s, %s).   (* keyword defaults: wave_name, axes, level *)"
                        % (gen, d["wave_name"][1], d["axes"][1], d["level"][1]))
        self.out.append("  Lemma %s_defaults_ok : %s_defaults = wavelet_defaults.\n  Proof. reflexivity. Qed.\n" % (gen, gen))

    def wavelet_py(self):
        tree = ast.parse(self.wsrc)
        module_facts(tree, "wavelet.py", W_MODULES, set(FUNCS), set(FUNCS))
        hand = {
            "get_wavelet_shape": ("(wavelet_shape (cs_of P axes wave_name level) shape, slices_of P axes wave_name level (zshape shape))",
                                  None, "cs_of, slices_of, struct_of, wavelet_shape, zshape, even_up"),
            "fwt": ("fwt (cs_of P axes wave_name level) (W_of P axes wave_name level) input_shape input",
                    None, "fwt, fwt_padded, cs_of, W_of, struct_of, zshape, even_up"),
            # coeff_slices: the slices get_wavelet_shape returns for a shape whose padded shape is rshape
            "iwt": ("iwt (Wr_of P axes wave_name level) rshape oshape input",
                    {"coeff_slices": "(slices_of P axes wave_name level rshape)"}, "iwt, Wr_of, slices_of, struct_of"),
        }
        for name in ("get_wavelet_shape", "fwt", "iwt"):
            spec = FUNCS[name]
            fn = [s for s in tree.body if isinstance(s, ast.FunctionDef) and s.name == name][0]
            where = "wavelet." + name
            defaults = check_signature(fn, spec["params"], where)
            no_nested(fn, where)
            fr = Frame(self, "wavelet.py", where, W_MODULES)
            self.frame_params(fr, spec["params"])
            fr.run(fn.body)
            term, ty = self.ret_term(fr, spec["ret"])
            if name == "iwt" and fr.oracle != ["rshape"]:
                raise TranslationError("wavelet.iwt: exactly one pywt.waverecn call is expected (the model has one result shape rshape), found %d" % len(fr.oracle))
            if name != "iwt" and fr.oracle:
                raise TranslationError("%s: pywt.waverecn is called (its result shape is not in the model of this function)" % where)
            gen = "gen_" + name
            self.generated[name] = dict(params=spec["params"], defaults=[None if d is None else d[0] for d in defaults],
                                        oracle=list(fr.oracle), ret=spec["ret"])
            self.out.append("  (* %s  (wavelet.py line %d) *)" % (name, fn.lineno))
            self.out.append("  Definition %s %s : %s :=\n    %s." % (gen, binders(spec["params"], fr.oracle), ty, "\n    ".join(fr.lines + [term])))
            names = binder_names(spec["params"], fr.oracle)
            rhs, subst, unf = hand[name]
            lhs_args = [(subst or {}).get(b, b) for b in names]
            quant = [b for b in names if not (subst and b in subst)]
            self.out.append("  Lemma %s_ok : forall %s,\n    %s %s = %s.\n  Proof. intros. unfold %s, %s. reflexivity. Qed."
                            % (gen, " ".join(quant), gen, " ".join(lhs_args), rhs, gen, unf))
            self.defaults_lemma(gen, defaults, spec["params"])

    # ---- linop.py -----------------------------------------------------------------------------------
    def inline_linop_init(self, fr, call):
        """super().__init__(...) inside a covered constructor: the body of Linop.__init__ on the given arguments"""
        fn = self.linop_init
        a = fn.args
        names = [x.arg for x in a.args][1:]
        nd = len(a.defaults)
        sig = [(p, None if i < len(names) - nd else ("<dflt>", a.defaults[i - (len(names) - nd)])) for i, p in enumerate(names)]
        got = fr.bind_args(call, sig, "Linop.__init__")
        saved, saved_where = fr.locals, fr.where
        new = {"self": saved["self"]}
        for p, _ in sig:
            v = got[p]
            if isinstance(v, tuple):
                d = v[1][1]
                if not (isinstance(d, ast.Constant) and (d.value is None or isinstance(d.value, str))):
                    fr.err(call, "default of Linop.__init__ parameter `%s` not understood" % p)
                new[p] = Val(NONE) if d.value is None else Val(STR, lit=d.value)
            else:
                new[p] = fr.ev(v)
        fr.locals, fr.where = new, saved_where + " -> Linop.__init__"
        fr.lines.append("(* L%d: %s  -- Linop.__init__ (linop.py line %d) inlined *)" % (call.lineno, san(ast.unparse(call)), fn.lineno))
        try:
            if fr.run(fn.body):
                fr.err(fn, "Linop.__init__ returns a value")
        finally:
            fr.locals, fr.where = saved, saved_where

    def class_checks(self, cls):
        where = "linop.%s" % cls.name
        if len(cls.bases) != 1 or not (isinstance(cls.bases[0], ast.Name) and cls.bases[0].id == "Linop") or cls.keywords or cls.decorator_list:
            raise TranslationError("%s: bases / decorators not understood (expected `class %s(Linop)`)" % (where, cls.name))
        methods = {}
        for s in cls.body:
            if isinstance(s, ast.Expr) and isinstance(s.value, ast.Constant) and isinstance(s.value.value, str):
                continue
            if isinstance(s, ast.Pass):
                continue
            if not isinstance(s, ast.FunctionDef) or s.decorator_list or s.name in methods:
                raise TranslationError("%s line %d: class body statement not understood (attribute / decorated or repeated method)" % (where, s.lineno))
            methods[s.name] = s
        allowed = {"__init__", "_apply", "_adjoint_linop", "_normal_linop"}
        extra = set(methods) - allowed
        if extra:
            raise TranslationError("%s: defines %s (the reading assumes Linop's own apply / __call__ / attribute access)" % (where, ", ".join(sorted(extra))))
        for m in ("__init__", "_apply"):
            if m not in methods:
                raise TranslationError("%s: no %s" % (where, m))
        # self.<a> is written only in __init__ (and there only by plain assignment statements the executor sees)
        for name, m in methods.items():
            for node in ast.walk(m):
                if isinstance(node, ast.Attribute) and isinstance(node.ctx, (ast.Store, ast.Del)) and name != "__init__":
                    raise TranslationError("%s.%s line %d: attribute assignment outside __init__" % (where, name, node.lineno))
                if isinstance(node, (ast.AugAssign, ast.AnnAssign)) or (isinstance(node, ast.Call) and isinstance(node.func, ast.Name)
                                                                        and node.func.id in ("setattr", "delattr", "vars")):
                    raise TranslationError("%s.%s line %d: augmented / annotated assignment, setattr" % (where, name, node.lineno))
                if isinstance(node, ast.Attribute) and node.attr == "__dict__":
                    raise TranslationError("%s.%s line %d: __dict__" % (where, name, node.lineno))
        return methods

    def linop_py(self):
        tree = ast.parse(self.lsrc)
        watched = set(CLASSES) | {"Linop", "list", "super", "_check_shape_positive"}
        module_facts(tree, "linop.py", L_MODULES, watched, set(CLASSES) | {"Linop", "_check_shape_positive"})
        top = {s.name: s for s in tree.body if isinstance(s, (ast.ClassDef, ast.FunctionDef))}
        # Linop: __init__ (inlined), apply checks the input shape before _apply
        base = top["Linop"]
        if not isinstance(base, ast.ClassDef) or base.bases or base.keywords or base.decorator_list:
            raise TranslationError("linop.Linop: not a plain class")
        bm = {s.name: s for s in base.body if isinstance(s, ast.FunctionDef)}
        if sum(1 for s in base.body if isinstance(s, ast.FunctionDef) and s.name in ("__init__", "apply")) != 2 \
                or any(k in bm for k in ("__setattr__", "__getattr__", "__getattribute__", "__new__", "__init_subclass__")):
            raise TranslationError("linop.Linop: __init__ / apply not defined exactly once, or attribute access is customised")
        init = bm["__init__"]
        ia = init.args
        if ia.vararg or ia.kwarg or ia.kwonlyargs or ia.posonlyargs or init.decorator_list or [x.arg for x in ia.args][:3] != ["self", "oshape", "ishape"]:
            raise TranslationError("linop.Linop.__init__: signature not understood (expected (self, oshape, ishape, ...))")
        no_nested(init, "linop.Linop.__init__")
        self.linop_init = init
        ap = bm["apply"]
        if [x.arg for x in ap.args.args] != ["self", "input"] or ap.decorator_list:
            raise TranslationError("linop.Linop.apply: signature not understood")
        pair = ("self._check_ishape(input)", "self._apply(input)")
        src_order = sorted((c.lineno, c.col_offset, ast.unparse(c)) for c in ast.walk(ap) if isinstance(c, ast.Call) and ast.unparse(c) in pair)
        if [x[2] for x in src_order] != list(pair):
            raise TranslationError("linop.Linop.apply: `self._check_ishape(input)` followed by `self._apply(input)` not found "
                                   "(the reading `input.shape == self.ishape` inside _apply rests on it)")
        chk = top["_check_shape_positive"]
        if not isinstance(chk, ast.FunctionDef) or chk.decorator_list or any(isinstance(x, (ast.Return, ast.Assign, ast.AugAssign, ast.Global))
                                                                           for x in ast.walk(chk)):
            raise TranslationError("linop._check_shape_positive: not a pure check (returns / assigns)")

        specs = {
            "Wavelet": dict(shape="ishape", ctor="(Wavelet ishape axes wave_name level wshape)", call="fwt",
                            apply_args=lambda names: names,
                            apply_rhs="(wavelet_shape (cs_of P axes wave_name level) ishape, "
                                      "orc_wavelet (cs_of P) (W_of P) (Wr_of P) (Wavelet ishape axes wave_name level wshape) input)"),
            # rshape: coeff_slices were computed by get_wavelet_shape from the padded shape of oshape, so waverecn
            # returns an array of that shape (model/OpaqueWavelet.v)
            "InverseWavelet": dict(shape="oshape", ctor="(InverseWavelet oshape axes wave_name level wshape)", call="iwt",
                                   apply_args=lambda names: ["(zshape oshape)" if b == "rshape" else b for b in names],
                                   apply_rhs="(oshape, orc_wavelet (cs_of P) (W_of P) (Wr_of P) (InverseWavelet oshape axes wave_name level wshape) input)"),
        }
        unf_model = "orc_wavelet, wavelet_init_shapes, wavelet_shape, fwt, fwt_padded, iwt, cs_of, W_of, Wr_of, slices_of, struct_of, zshape, even_up"
        for cname in ("Wavelet", "InverseWavelet"):
            cls = top[cname]
            if not isinstance(cls, ast.ClassDef):
                raise TranslationError("linop.%s is not a class" % cname)
            methods = self.class_checks(cls)
            params = CLASSES[cname]["params"]
            sp = specs[cname]
            init, app = methods["__init__"], methods["_apply"]
            defaults = check_signature(init, params, "linop.%s.__init__" % cname, method=True)
            if [x.arg for x in app.args.args] != ["self", "input"] or app.args.defaults or app.args.vararg or app.args.kwarg \
                    or app.args.kwonlyargs or app.decorator_list:
                raise TranslationError("linop.%s._apply: signature not understood (expected (self, input))" % cname)
            no_nested(init, "linop.%s.__init__" % cname)
            no_nested(app, "linop.%s._apply" % cname)

            def run_init():
                fr = Frame(self, "linop.py", "linop.%s.__init__" % cname, L_MODULES)
                fr.cls, fr.attrs, fr.in_init = cname, {}, True
                self.frame_params(fr, params)
                fr.locals["self"] = Val(SELF)
                if fr.run(init.body):
                    fr.err(init, "__init__ returns a value")
                want = {"oshape": SHAPE, "ishape": SHAPE, "wave_name": WAVE, "axes": AXES, "level": LEVEL}
                for a, k in want.items():
                    if a not in fr.attrs:
                        raise TranslationError("linop.%s.__init__: self.%s is never assigned" % (cname, a))
                    v = fr.attrs[a]
                    if a == "axes" and v.kind == NONE:
                        fr.attrs[a] = Val(AXES, "(@None (list Z))")
                    elif a == "level" and v.kind == NONE:
                        fr.attrs[a] = Val(LEVEL, "(@None Z)")
                    elif a == "level" and v.kind == INT:
                        fr.attrs[a] = Val(LEVEL, "(Some %s)" % zlit(v.lit))
                    elif v.kind != k:
                        raise TranslationError("linop.%s.__init__: self.%s holds a value of kind `%s`, the model's is `%s`" % (cname, a, v.kind, k))
                return fr

            fr = run_init()
            if fr.oracle:
                raise TranslationError("linop.%s.__init__: calls something whose result shape is an oracle parameter" % cname)
            A = fr.attrs
            gen_i = "gen_%s_init" % cname
            self.out.append("  (* %s.__init__  (linop.py line %d): ((self.oshape, self.ishape), (self.wave_name, self.axes, self.level)) *)" % (cname, init.lineno))
            self.out.append("  Definition %s %s : (list Z * list Z) * (Z * option (list Z) * option Z) :=\n    %s."
                            % (gen_i, binders(params, []), "\n    ".join(fr.lines + ["((%s, %s), (%s, %s, %s))" % (
                                A["oshape"].term, A["ishape"].term, A["wave_name"].term, A["axes"].term, A["level"].term)])))
            names = binder_names(params, [])
            self.out.append("  Lemma %s_ok : forall %s wshape,\n    Some (fst (%s %s)) = wavelet_init_shapes (cs_of P) %s.\n"
                            "  Proof. intros. unfold %s, gen_get_wavelet_shape, %s. reflexivity. Qed."
                            % (gen_i, " ".join(names), gen_i, " ".join(names), sp["ctor"], gen_i, unf_model))
            self.out.append("  Lemma %s_attrs_ok : forall %s,\n    snd (%s %s) = (wave_name, axes, level).\n"
                            "  Proof. intros. unfold %s. reflexivity. Qed." % (gen_i, " ".join(names), gen_i, " ".join(names), gen_i))
            self.defaults_lemma(gen_i, defaults, params)

            # _apply: the state is the one __init__ leaves; input has shape self.ishape (Linop.apply: _check_ishape)
            fr = run_init()
            fr.in_init = False
            fr.where = "linop.%s._apply" % cname
            fr.lines.append("(* _apply  (linop.py line %d); input.shape = self.ishape *)" % app.lineno)
            fr.locals = {"self": Val(SELF), "input": Val(ARR, "input", shape=fr.attrs["ishape"].term)}
            if not fr.run(app.body):
                raise TranslationError("linop.%s._apply: the body ends without a return" % cname)
            v, node = fr.result
            fr.want(v, ARR, node, "returned value")
            want_oracle = ["rshape"] if cname == "InverseWavelet" else []
            if fr.oracle != want_oracle:
                raise TranslationError("linop.%s._apply: %d calls of wavelet.iwt (each carries pywt.waverecn's result shape), the model has %d"
                                       % (cname, len(fr.oracle), len(want_oracle)))
            gen_a = "gen_%s_apply" % cname
            self.out.append("  (* %s._apply  (linop.py line %d), on the object __init__ builds *)" % (cname, app.lineno))
            self.out.append("  Definition %s %s : list Z * (%s) :=\n    %s." % (
                gen_a, binders(params, fr.oracle, with_self_input="input"), FARR,
                "\n    ".join(fr.lines + ["(%s, %s)   (* L%d: %s *)" % (v.shape, v.term, node.lineno, san(ast.unparse(node))[:120])])))
            names = binder_names(params, fr.oracle, extra=["input"])
            quant = [b for b in names if b != "rshape"]
            self.out.append("  Lemma %s_ok : forall %s wshape,\n    %s %s = %s.\n"
                            "  Proof. intros. unfold %s, gen_get_wavelet_shape, gen_%s, %s. reflexivity. Qed.\n"
                            % (gen_a, " ".join(quant), gen_a, " ".join(sp["apply_args"](names)), sp["apply_rhs"], gen_a, sp["call"], unf_model))


HEADER = """(* Gen_wavelet.v -- GENERATED by tools/translate_wavelet.py.  Do not edit.
   sources: sigpy/wavelet.py (sha256 %s)
            sigpy/linop.py   (sha256 %s; classes Wavelet, InverseWavelet, Linop.__init__)
   get_wavelet_shape / fwt / iwt and the __init__ / _apply methods of the two Linop classes as written in the source, over the
   PyWavelets environment record of model/WaveletPywt.v and `resize` of model/Rearrange.v, and their agreement with the
   hand models model/Wavelet.v, model/OpaqueWavelet.v (each lemma: unfolding, reflexivity).
   Conventions: every Python assignment is a `let` (comment: source line); an array is (shape, data): parameter `p` is
   `p_shape`, `p`; a coefficient list is (structure, values); `[e for i in s]` -> map (fun i => e) s with // -> Z.div;
   pywt arguments are bound to the PyWavelets signatures with their defaults; `rshape` is the shape of pywt.waverecn's
   result; backend.get_device / to_device / `with device:` are dropped (CPU path); wavelet.<f> called from linop.py is
   gen_<f>; `self.a` in _apply is what __init__ assigned; in _apply the input has shape self.ishape. *)
From Coq Require Import ZArith List Bool String.
From SV Require Import lib.Scalar lib.NdArray model.Rearrange model.Wavelet model.WaveletPywt model.Linop model.OpaqueWavelet.
Import ListNotations.
Local Open Scope Z_scope.

Section Gen.
  Variable R : Ops.
  Variable P : pywt R.

"""


def translate_sources(wavelet_src, linop_src):
    """-> text of gen/Gen_wavelet.v"""
    tr = Translator(wavelet_src, linop_src)
    tr.wavelet_py()
    tr.linop_py()
    head = HEADER % (hashlib.sha256(wavelet_src.encode()).hexdigest(), hashlib.sha256(linop_src.encode()).hexdigest())
    return head + "\n".join(tr.out) + "\nEnd Gen.\n"


def translate_wavelet(repo, wavelet_path=None, linop_path=None):
    w = open(wavelet_path or os.path.join(repo, SRC_WAVELET)).read()
    l = open(linop_path or os.path.join(repo, SRC_LINOP)).read()
    return translate_sources(w, l)


LEMMAS = ("gen_get_wavelet_shape_ok, gen_fwt_ok, gen_iwt_ok, gen_Wavelet_init_ok, gen_Wavelet_apply_ok, "
          "gen_InverseWavelet_init_ok, gen_InverseWavelet_apply_ok, *_attrs_ok, *_defaults_ok")


def failing_lemma(gen_text, log):
    """name of the lemma / definition a coqc error message points into"""
    m = re.search(r'line (\d+), characters', log)
    if not m:
        return None
    lines = gen_text.split("\n")
    for i in range(min(int(m.group(1)), len(lines)) - 1, -1, -1):
        mm = re.match(r"\s*(?:Lemma|Definition)\s+([A-Za-z0-9_']+)", lines[i])
        if mm:
            return mm.group(1)
    return None


def tie(ctx):
    """The two obligations props/C10.py adds (DESIGN 2.10 steps 1-2): regenerate gen/Gen_wavelet.v from the tree under test,
    then compile it (the `_ok` lemmas ARE the tie).  Returns None when both hold, else {"theorem": <translator or lemma>,
    "log": ...} for the no-failing-input report."""
    from tools import translate_all
    from vlib import core
    tr_err = translate_all.run(strict=False, only=["wavelet"])
    ctx.source_hash(SRC_WAVELET, SRC_LINOP)
    ctx.obligation("translate:%s (%s); %s (%s)" % (SRC_WAVELET, COVERED_WAVELET, SRC_LINOP, COVERED_LINOP), not tr_err)
    name = "tie:generated == hand model (gen/Gen_wavelet.v: %s)" % LEMMAS
    if tr_err:
        ctx.notes.append("translator failed closed: %s" % tr_err)
        ctx.obligation(name, False)
        return {"theorem": "translate:%s+%s" % (SRC_WAVELET, SRC_LINOP), "log": str(tr_err)}
    ctx.checker_cmds.append("cd %s && make gen/Gen_wavelet.vo proofs/WaveletPywt.vo" % core.COQ)
    ok, log = core.coq_make(["gen/Gen_wavelet.vo", "proofs/WaveletPywt.vo"], timeout=900)
    ctx.obligation(name, ok)
    if ok:
        return None
    lem = None
    m = re.search(r'File "[^"]*?Gen_wavelet\.v", line (\d+)', log)
    if m:
        try:
            lem = failing_lemma(open(os.path.join(core.COQ, "gen", "Gen_wavelet.v")).read(), "line %s, characters" % m.group(1))
        except OSError:
            lem = None
    which = "%s (gen/Gen_wavelet.v)" % (lem or "?")
    ctx.notes.append("generated wavelet wrappers no longer equal the hand model: %s: %s" % (which, log[-1200:]))
    return {"theorem": "tie:" + which, "log": log[-2500:]}


if __name__ == "__main__":
    args = [a for a in sys.argv[1:] if not a.startswith("--")]
    sys.stdout.write(translate_wavelet(args[0] if args else "/repo"))
