#!/usr/bin/env python3
"""Self-test of tools/translate_conv.py: small textual mutations of a COPY of sigpy/conv.py.

For every mutation the copy is translated; expected outcome: the translation FAILS CLOSED (TranslationError naming the line) or
the first lemma of Gen_conv.v that no longer compiles is named.  The unmodified source and the meaning-preserving edits that keep
the normal form must pass; meaning-preserving edits that change the generated TERM are listed with the expectation "breaks"
(accepted by the brief: the check then falls back to the correspondence and the oracles).
Scratch copies: /verif/build/trconv_selftest/<name>/{sigpy/conv.py,Gen_conv.v}.

    /venv/bin/python tools/test_translate_conv.py [repo] [--no-seeded]        exit 0 = everything as expected
"""
import concurrent.futures
import os
import shutil
import subprocess
import sys
import time

HERE = os.path.dirname(os.path.abspath(__file__))
sys.path.insert(0, os.path.dirname(HERE))
from tools import translate_conv as T      # noqa: E402
from vlib import core                     # noqa: E402

SCRATCH = os.path.join(core.BUILD, "trconv_selftest")

LOOP3 = "    for k in range(B):\n        for j in range(c_o):\n            for i in range(c_i):\n"

# (name, old text, new text, which occurrence (0-based; -1 = all), expectation)
MUTATIONS = [
    # ---- _get_convolve_params -----------------------------------------------------------------------------------------
    ("gp_D_one_per_channel", "D = len(filt_shape) - 2 * multi_channel", "D = len(filt_shape) - multi_channel", 0, "caught"),
    ("gp_m_from_filter", "m = tuple(data_shape[-D:])", "m = tuple(filt_shape[-D:])", 0, "caught"),
    ("gp_batch_keeps_channel", "b = tuple(data_shape[: -D - multi_channel])", "b = tuple(data_shape[:-D])", 0, "caught"),
    ("gp_channel_check_wrong_axis", "if filt_shape[-D - 1] != data_shape[-D - 1]:", "if filt_shape[-D - 1] != data_shape[-D - 2]:", 0, "caught"),
    ("gp_channel_check_dropped", "if filt_shape[-D - 1] != data_shape[-D - 1]:", "if False:", 0, "caught"),
    ("gp_c_o_is_c_i", "c_o = filt_shape[-D - 2]", "c_o = filt_shape[-D - 1]", 0, "caught"),
    ("gp_single_channel_c_o_2", "        c_i = 1\n        c_o = 1", "        c_i = 1\n        c_o = 2", 0, "caught"),
    ("gp_strides_len_lt", "if len(strides) != D:", "if len(strides) < D:", 0, "caught"),
    ("gp_default_stride_2", "s = (1,) * D", "s = (2,) * D", 0, "caught"),
    ("gp_full_floor_not_ceil", "(m_d + n_d - 1 + s_d - 1) // s_d", "(m_d + n_d - 1) // s_d", 0, "caught"),
    ("gp_full_len_off_by_one", "(m_d + n_d - 1 + s_d - 1) // s_d", "(m_d + n_d + s_d - 1) // s_d", 0, "caught"),
    ("gp_valid_len_off_by_one", "(m_d - n_d + 1 + s_d - 1) // s_d", "(m_d - n_d + s_d - 1) // s_d", 0, "caught"),
    ("gp_valid_any_gt", "if any(m_d >= n_d for m_d, n_d in zip(m, n)) and any(", "if any(m_d > n_d for m_d, n_d in zip(m, n)) and any(", 0, "caught"),
    ("gp_valid_or", "if any(m_d >= n_d for m_d, n_d in zip(m, n)) and any(", "if any(m_d >= n_d for m_d, n_d in zip(m, n)) or any(", 0, "caught"),
    ("gp_modes_swapped", "    if mode == \"full\":\n        p = tuple(", "    if mode == \"valid\":\n        p = tuple(", 0, "caught"),
    # ---- _convolve ----------------------------------------------------------------------------------------------------
    ("cv_data_reshape_c_o", "    data = data.reshape((B, c_i) + m)\n    filt = filt.reshape((c_o, c_i) + n)\n    output = np.zeros(",
     "    data = data.reshape((B, c_o) + m)\n    filt = filt.reshape((c_o, c_i) + n)\n    output = np.zeros(", 0, "caught"),
    ("cv_filter_index_swapped", "data[k, i], filt[j, i], mode=mode", "data[k, i], filt[i, j], mode=mode", 0, "caught"),
    ("cv_stride_slice_dropped", "                )[slc]\n", "                )\n", 0, "caught"),
    ("cv_correlate_for_convolve", "output[k, j] += signal.convolve(", "output[k, j] += signal.correlate(", 0, "caught"),
    ("cv_mode_hardwired", "data[k, i], filt[j, i], mode=mode", "data[k, i], filt[j, i], mode=\"full\"", 0, "caught"),
    ("cv_assign_not_accumulate", "output[k, j] += signal.convolve(", "output[k, j] = signal.convolve(", 0, "caught"),
    ("cv_sum_over_c_o", LOOP3 + "                output[k, j] +=", LOOP3.replace("range(c_i)", "range(c_o)") + "                output[k, j] +=", 0, "caught"),
    ("cv_j_over_c_i", LOOP3 + "                output[k, j] +=", LOOP3.replace("range(c_o)", "range(c_i)") + "                output[k, j] +=", 0, "caught"),
    ("cv_channel_axis_last", "output = output.reshape(b + (c_o,) + p)", "output = output.reshape(b + p + (c_o,))", 0, "caught"),
    ("cv_multi_channel_test_negated", "    if multi_channel:\n        output = output.reshape(b + (c_o,) + p)", "    if not multi_channel:\n        output = output.reshape(b + (c_o,) + p)", 0, "caught"),
    # ---- _convolve_data_adjoint ---------------------------------------------------------------------------------------
    ("da_full_len_off_by_one", "[m_d + n_d - 1 for m_d, n_d in zip(m, n)], dtype=output.dtype", "[m_d + n_d for m_d, n_d in zip(m, n)], dtype=output.dtype", 0, "caught"),
    ("da_valid_len_no_abs", "[max(m_d, n_d) - min(m_d, n_d) + 1 for m_d, n_d in zip(m, n)]", "[m_d - n_d + 1 for m_d, n_d in zip(m, n)]", 0, "caught"),
    ("da_adjoint_mode_table", "            adjoint_mode = \"full\"\n        else:\n            adjoint_mode = \"valid\"", "            adjoint_mode = \"valid\"\n        else:\n            adjoint_mode = \"full\"", 0, "caught"),
    ("da_full_adjoint_mode", "        adjoint_mode = \"valid\"\n    elif mode == \"valid\":", "        adjoint_mode = \"full\"\n    elif mode == \"valid\":", 0, "caught"),
    ("da_all_gt", "if all(m_d >= n_d for m_d, n_d in zip(m, n)):", "if all(m_d > n_d for m_d, n_d in zip(m, n)):", 0, "caught"),
    ("da_correlate_operands_swapped", "output_kj, filt[j, i], mode=adjoint_mode", "filt[j, i], output_kj, mode=adjoint_mode", 0, "caught"),
    ("da_dropped_conj", "data[k, i] += signal.correlate(", "data[k, i] += signal.convolve(", 0, "caught"),
    ("da_stuff_wrong_block", "                output_kj[slc] = output[k, j]\n                data[k, i] +=", "                output_kj[slc] = output[k, i]\n                data[k, i] +=", 0, "caught"),
    ("da_no_zero_stuffing", "                output_kj[slc] = output[k, j]\n                data[k, i] += signal.correlate(\n                    output_kj,",
     "                data[k, i] += signal.correlate(\n                    output[k, j],", 0, "caught"),
    ("da_result_not_reshaped", "    data = data.reshape(data_shape)\n    return data", "    return data", 0, "caught"),
    ("da_scratch_dtype_of_filter", "[m_d + n_d - 1 for m_d, n_d in zip(m, n)], dtype=output.dtype", "[m_d + n_d - 1 for m_d, n_d in zip(m, n)], dtype=filt.dtype", 0, "caught"),
    ("da_output_axes_swapped", "    output = output.reshape((B, c_o) + p)\n    filt = filt.reshape(", "    output = output.reshape((c_o, B) + p)\n    filt = filt.reshape(", 0, "caught"),
    # ---- _convolve_filter_adjoint -------------------------------------------------------------------------------------
    ("fa_data_block_wrong_channel", "output_kj, data[k, i], mode=adjoint_mode", "output_kj, data[k, j], mode=adjoint_mode", 0, "caught"),
    ("fa_adjoint_mode_table", "            adjoint_mode = \"valid\"\n        else:\n            adjoint_mode = \"full\"", "            adjoint_mode = \"full\"\n        else:\n            adjoint_mode = \"valid\"", 0, "caught"),
    ("fa_filter_axes_swapped", "filt = np.zeros((c_o, c_i) + n, dtype=output.dtype)", "filt = np.zeros((c_i, c_o) + n, dtype=output.dtype)", 0, "caught"),
    ("fa_last_batch_only", "filt[j, i] += signal.correlate(", "filt[j, i] = signal.correlate(", 0, "caught"),
    ("fa_params_from_output_shape", "        data.shape, filt_shape, mode, strides, multi_channel\n    )\n\n    # Normalize shapes.\n    data = data.reshape((B, c_i) + m)\n    output = output.reshape(",
     "        output.shape, filt_shape, mode, strides, multi_channel\n    )\n\n    # Normalize shapes.\n    data = data.reshape((B, c_i) + m)\n    output = output.reshape(", 0, "caught"),
    # ---- public wrappers ----------------------------------------------------------------------------------------------
    ("pub_operands_swapped", "        output = _convolve(\n            data, filt, mode=mode", "        output = _convolve(\n            filt, data, mode=mode", 0, "caught"),
    ("pub_strides_dropped", "            data, filt, mode=mode, strides=strides, multi_channel=multi_channel", "            data, filt, mode=mode, strides=None, multi_channel=multi_channel", 0, "caught"),
    ("pub_multi_channel_false", "            data, filt, mode=mode, strides=strides, multi_channel=multi_channel", "            data, filt, mode=mode, strides=strides, multi_channel=False", 0, "caught"),
    ("pub_default_mode_valid", "def convolve(data, filt, mode=\"full\", strides=None, multi_channel=False):", "def convolve(data, filt, mode=\"valid\", strides=None, multi_channel=False):", 0, "caught"),
    ("pub_backend_test_negated", "    if xp == np:\n        output = _convolve(", "    if xp != np:\n        output = _convolve(", 0, "caught"),
    ("pub_data_adjoint_calls_filter_adjoint", "        data = _convolve_data_adjoint(\n", "        data = _convolve_filter_adjoint(\n", 0, "caught"),
    ("pub_redefined_later", "\nif config.cudnn_enabled:  # pragma: no cover\n", "\ndef _convolve(data, filt, mode=\"full\", strides=None, multi_channel=False):\n    return data\n\n\nif config.cudnn_enabled:  # pragma: no cover\n", 0, "caught"),
    # ---- meaning-preserving edits that keep the normal form: the tie must survive them ---------------------------------------
    ("neutral_rename_local", "output_kj", "scratch", -1, "pass"),
    ("neutral_rename_loop_variable", LOOP3 + "                output[k, j] += signal.convolve(\n                    data[k, i], filt[j, i], mode=mode",
     LOOP3.replace("for k in", "for kk in") + "                output[kk, j] += signal.convolve(\n                    data[kk, i], filt[j, i], mode=mode", 0, "pass"),
    ("neutral_comment", "    # Normalize shapes.\n", "    # Normalize shapes: (batch, channel, spatial).\n", -1, "pass"),
    ("neutral_unused_local", "    slc = tuple(slice(None, None, s_d) for s_d in s)\n\n    for k in range(B):", "    slc = tuple(slice(None, None, s_d) for s_d in s)\n    ndim = len(m)\n\n    for k in range(B):", 0, "pass"),
    ("neutral_le_for_ge", "if all(m_d >= n_d for m_d, n_d in zip(m, n)):", "if all(n_d <= m_d for m_d, n_d in zip(m, n)):", -1, "pass"),
    ("neutral_tuple_pieces", "data = data.reshape((B, c_i) + m)", "data = data.reshape((B,) + (c_i,) + m)", -1, "pass"),
    ("neutral_loop_interchange", LOOP3 + "                output[k, j] +=", "    for j in range(c_o):\n        for k in range(B):\n            for i in range(c_i):\n                output[k, j] +=", 0, "pass"),
    ("neutral_gpu_branch_edit", "                    filt.conj(),\n", "                    filt,\n", 0, "pass"),
    # _get_convolve_params is tied by evaluation on a grid: a rewrite that computes the same numbers passes
    ("neutral_ceil_written_negated", "(m_d + n_d - 1 + s_d - 1) // s_d", "-(-(m_d + n_d - 1) // s_d)", 0, "pass"),
    ("neutral_positional_mode", "            data, filt, mode=mode, strides=strides, multi_channel=multi_channel", "            data, filt, mode, strides=strides, multi_channel=multi_channel", 0, "pass"),
    # ---- meaning-preserving edits that change the TERM or leave the fragment: reported (accepted) ----------------------------
    ("refactor_commuted_sum", "[m_d + n_d - 1 for m_d, n_d in zip(m, n)], dtype=output.dtype", "[n_d + m_d - 1 for m_d, n_d in zip(m, n)], dtype=output.dtype", 0, "breaks"),
    ("refactor_block_in_a_local", "                output_kj[slc] = output[k, j]\n                data[k, i] +=", "                block = output[k, j]\n                output_kj[slc] = block\n                data[k, i] +=", 0, "breaks"),
]


def nth_replace(text, old, new, k):
    if k == -1:
        assert old in text, old
        return text.replace(old, new)
    idx = -1
    for _ in range(k + 1):
        idx = text.find(old, idx + 1)
        if idx < 0:
            raise AssertionError("pattern not found (occurrence %d): %r" % (k, old))
    return text[:idx] + new + text[idx + len(old):]


def compile_gen(path):
    p = subprocess.run(["coqc", "-w", "-all", "-Q", core.COQ, "SV", path], cwd=os.path.dirname(path),
                       stdout=subprocess.PIPE, stderr=subprocess.STDOUT, text=True, timeout=900)
    return p.returncode, p.stdout


def one(name, src):
    d = os.path.join(SCRATCH, name.replace(":", "_"))
    shutil.rmtree(d, ignore_errors=True)
    os.makedirs(os.path.join(d, "sigpy"))
    with open(os.path.join(d, T.SRC_REL), "w") as f:
        f.write(src)
    try:
        text = T.translate_conv(d)               # reads <d>/sigpy/conv.py
    except T.TranslationError as e:
        return ("fails closed", str(e))
    except SyntaxError as e:
        return ("fails closed", "SyntaxError: %s" % e)
    path = os.path.join(d, "Gen_conv.v")
    with open(path, "w") as f:
        f.write(text)
    rc, out = compile_gen(path)
    if rc == 0:
        return ("ok", "")
    return ("lemma fails", str(T.failing_lemma(text, out)))


def seeded_patches(src0):
    """the seeded changes of /verif/seeded for C08 that touch conv.py (informational)"""
    out = []
    root = os.path.join(core.VERIF, "seeded")
    for name in sorted(os.listdir(root)) if os.path.isdir(root) else []:
        patch = os.path.join(root, name, "patch.diff")
        if not name.startswith("C08_") or not os.path.exists(patch):
            continue
        files = [l.split()[1][2:] for l in open(patch) if l.startswith("+++ ")]
        if T.SRC_REL not in files:
            continue
        d = os.path.join(SCRATCH, "seeded_src_" + name)
        shutil.rmtree(d, ignore_errors=True)
        os.makedirs(os.path.join(d, "sigpy"))
        open(os.path.join(d, T.SRC_REL), "w").write(src0)
        p = subprocess.run(["patch", "-p1", "-s", "--no-backup-if-mismatch", "-d", d, "-i", patch],
                           stdout=subprocess.PIPE, stderr=subprocess.STDOUT, text=True)
        if p.returncode:
            out.append(("seeded:" + name, None, "does not apply"))
            continue
        out.append(("seeded:" + name, open(os.path.join(d, T.SRC_REL)).read(), "info"))
        shutil.rmtree(d, ignore_errors=True)
    return out


def main():
    pos = [a for a in sys.argv[1:] if not a.startswith("--")]
    repo = pos[0] if pos else core.REPO
    t0 = time.time()
    ok, log = core.coq_make(["model/Conv.vo"], timeout=900)
    if not ok:
        print("cannot build the hand model:\n" + log[-1500:])
        return 2
    src0 = open(os.path.join(repo, T.SRC_REL)).read()
    jobs = [("UNMODIFIED", src0, "pass")]
    for name, old, new, k, expect in MUTATIONS:
        jobs.append((name, nth_replace(src0, old, new, k), expect))
    if "--no-seeded" not in sys.argv:
        for j in seeded_patches(src0):
            if j[1] is None:
                print("%-40s does not apply" % j[0])
            else:
                jobs.append(j)
    with concurrent.futures.ThreadPoolExecutor(max_workers=8) as ex:
        results = list(ex.map(lambda j: one(j[0], j[1]), jobs))
    bad = 0
    tally = {}
    print("%-40s %-8s %-9s %s" % ("mutation", "expected", "verdict", "how"))
    for (name, _, expect), (how, detail) in zip(jobs, results):
        verdict = "pass" if how == "ok" else "caught"
        good = expect == "info" or verdict == {"caught": "caught", "breaks": "caught", "pass": "pass"}[expect]
        bad += 0 if good else 1
        tally[(expect, how)] = tally.get((expect, how), 0) + 1
        print("%-40s %-8s %-9s %s%s" % (name, expect, verdict + ("" if good else " (!!)"), how, (": " + detail[:200]) if detail else ""))
    print("; ".join("%s/%s: %d" % (e, h, n) for (e, h), n in sorted(tally.items())))
    print("%d cases, %d unexpected, %.1fs" % (len(jobs), bad, time.time() - t0))
    return 1 if bad else 0


if __name__ == "__main__":
    sys.exit(main())
