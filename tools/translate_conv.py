#!/usr/bin/env python3
"""Fail-closed translator: sigpy/conv.py (CPU paths, Python `ast`) -> Gallina, tied to the hand model coq/model/Conv.v.

From the SOURCE TEXT of conv.py it regenerates, on every run, coq/gen/Gen_conv.v with

    gen__get_convolve_params                               (integers / shape tuples, Python exceptions as Err)
    gen__convolve, gen__convolve_data_adjoint, gen__convolve_filter_adjoint      (the private CPU functions)
    gen_convolve, gen_convolve_data_adjoint, gen_convolve_filter_adjoint         (the public wrappers, numpy backend)

over the SAME operations as the hand model (Ops record R, functional arrays list Z -> R, Rearrange.reshape, the recorded scipy
specifications sp_shape / sp_convolve_val / sp_correlate_val, sub2, zero_stuff, strided_shape, sumL) and the lemmas

    gen__convolve_ok etc.  : generated = hand model (unfolding, case analysis on the tests that occur, reflexivity)
    gen__get_convolve_params_agree_* : the generated parameter function = the hand model's parameter view cv_params9
                                       (Linop.conv_params + cv_D / lastn / cv_s / cv_ci / prodZ) on a finite grid of the
                                       operators' domain, by vm_compute  (outside that domain the two differ by design: the
                                       model rejects ranks the Python function silently truncates).

See notes/translate_conv.md for the accepted fragment, the normal form and the trusted readings.
Entry points: translate_conv(repo[, path]) -> text; translate_source(src); tie(ctx) for props/C08.py;
tools/test_translate_conv.py is the self-test.
"""
import ast
import hashlib
import os
import re
import sys


class TranslationError(Exception):
    pass


SRC_REL = "sigpy/conv.py"

# kinds of parameters (given per function in SPECS, by position)
P_ARR, P_TUP, P_MODE, P_OPT, P_BOOL = "array", "shape", "mode", "optshape", "bool"

RESERVED = {
    "by", "at", "in", "as", "end", "fun", "let", "if", "then", "else", "with", "using", "return", "fix", "cofix", "match", "forall",
    "exists", "where", "for", "mod", "Set", "Prop", "Type", "IF", "R", "Z", "list", "nat", "bool", "true", "false", "Some", "None",
    "Ok", "Err", "bind", "map", "combine", "forallb", "existsb", "fst", "snd", "negb", "zero", "one", "add", "mul", "conj", "sumL",
    "zrange", "reshape", "sub2", "zero_stuff", "strided_shape", "sp_shape", "sp_convolve_val", "sp_correlate_val", "zlist_eqb",
    "all_pos", "prodZ", "vmul", "vadd", "vsub", "vdiv", "zip2", "zip3", "cv_params9", "cv_D", "cv_s", "cv_ci", "cv_L", "lastn",
    "droplast", "conv_params", "convolve", "convolve_data_adjoint", "convolve_filter_adjoint", "data_adjoint_mode",
    "filt_adjoint_mode", "all_ge", "E_py", "E_nonpos", "E_reshape", "E_bcast2", "E_spvalid", "py_len", "py_get", "py_slice",
    "py_repeat", "py_floordiv", "py_mapM", "py_b2z", "py_idx", "py_clamp", "farr", "tie", "tie_case", "result", "option", "length",
    "repeat", "firstn", "skipn", "nth", "app", "cons", "nil", "pair", "Ops",
}
PROTECTED = {"np", "signal", "backend", "config", "util", "len", "tuple", "zip", "range", "slice", "all", "any", "max", "min"}

CMP = {ast.Lt: "lt", ast.LtE: "le", ast.Gt: "gt", ast.GtE: "ge", ast.Eq: "eq", ast.NotEq: "ne"}


def san(text):
    return " ".join(text.split()).replace("(*", "( *").replace("*)", "* )")


# ---------------------------------------------------------------------------------------------
# symbolic values
# ---------------------------------------------------------------------------------------------
class Int:
    def __init__(self, term, lit=None):
        self.term, self.lit = term, lit


class LoopVar:
    def __init__(self, term, bound):
        self.term, self.bound = term, bound      # bound: term of the range() argument


class Bool:
    def __init__(self, term, var=None, pol=True):
        self.term, self.var, self.pol = term, var, pol     # var: the test is `var` (pol) or `negb var`


class Mode:
    """'full' / 'valid' as a bool (true = 'full')"""
    def __init__(self, term, lit=None):
        self.term, self.lit = term, lit


class Tup:
    """tuple / list of ints: segments ('i', int term) and ('v', list term); concatenation is read associatively"""
    def __init__(self, segs, outlen=None):
        self.segs, self.outlen = list(segs), outlen    # outlen: term of the output-length tuple p when it occurs inside

    @staticmethod
    def var(term, outlen=None):
        return Tup([("v", term)], outlen)

    def term(self):
        acc = None
        for kind, t in reversed(self.segs):
            if kind == "v":
                acc = t if acc is None else "(%s ++ %s)" % (t, acc)
            else:
                acc = "[%s]" % t if acc is None else "(%s :: %s)" % (t, acc)
        return acc if acc is not None else "[]"

    def prod(self):
        fs = [t if kind == "i" else "prodZ %s" % t for kind, t in self.segs]
        return " * ".join(fs) if fs else "1"

    def all_items(self):
        return all(k == "i" for k, _ in self.segs)


class Opt:
    def __init__(self, term):
        self.term = term


class NoneV:
    pass


class Str:
    def __init__(self, s):
        self.s = s


class Marker:
    def __init__(self, what, info=None):
        self.what, self.info = what, info


class SliceElt:
    def __init__(self, step):
        self.step = step


class Slc:
    def __init__(self, s):
        self.s = s             # term of the stride tuple


class RCall:
    def __init__(self, term):
        self.term = term


class Dead:
    def __init__(self, why):
        self.why = why


class Arr:
    def __init__(self, shape, fn, kind, dt, indep=False, at=None, stale=None):
        self.shape, self.fn, self.kind, self.dt, self.indep = shape, fn, kind, dt, indep
        self._at = at
        self.stale = stale      # reason why the value may not be read at this point (buffer written inside the loop nest)

    def at(self, t):
        return self._at(t) if self._at else "%s %s" % (self.fn, t)


class Env:
    def __init__(self):
        self.locals, self.facts, self.lines, self.closers = {}, {}, [], []

    def fork(self):
        e = Env()
        e.locals, e.facts = dict(self.locals), dict(self.facts)
        return e


# ---------------------------------------------------------------------------------------------
# one function
# ---------------------------------------------------------------------------------------------
class Fn:
    def __init__(self, mod, spec, fn):
        self.mod, self.spec, self.fn = mod, spec, fn
        self.counter = {}
        self.kind = spec["kind"]            # "params" | "array" | "public"
        self.first_arr = None

    def err(self, node, msg):
        ln = getattr(node, "lineno", 0)
        seg = ""
        try:
            seg = ast.unparse(node) if isinstance(node, ast.AST) else ""
        except Exception:
            pass
        raise TranslationError("%s, conv.py line %d: %s%s" % (self.fn.name, ln, msg, (": `%s`" % " ".join(seg.split())[:140]) if seg else ""))

    def fresh(self, hint):
        hint = re.sub(r"[^A-Za-z0-9_]", "_", hint) or "t"
        k = self.counter.get(hint, 0) + 1
        self.counter[hint] = k
        return "%s_%d" % (hint, k)

    def let(self, env, hint, term, node, ty=None):
        name = self.fresh(hint)
        env.lines.append("let %s%s := %s in   (* L%d: %s *)" % (name, (" : " + ty) if ty else "", term, node.lineno, san(ast.unparse(node))[:110]))
        return name

    def bindm(self, env, hint, rterm, node):
        """monadic bind of a Python operation that may raise"""
        name = self.fresh(hint)
        env.lines.append("bind (%s) (fun %s =>   (* L%d *)" % (rterm, name, node.lineno))
        env.closers.append(")")
        return name

    # ---- coercions -------------------------------------------------------------------------
    def as_int(self, v, node):
        if isinstance(v, Int):
            return v.term
        if isinstance(v, Bool):
            return "(py_b2z %s)" % v.term        # True == 1, False == 0
        if isinstance(v, LoopVar):
            self.err(node, "a loop variable is used outside an array subscript")
        self.err(node, "a value of kind %s where an int is expected" % type(v).__name__)

    def as_tup(self, v, node):
        if isinstance(v, Tup):
            return v
        self.err(node, "a value of kind %s where a tuple of ints is expected" % type(v).__name__)

    def as_arr(self, v, node):
        if isinstance(v, Arr):
            if v.stale:
                self.err(node, "array read while its value depends on the loop iteration (%s)" % v.stale)
            return v
        if isinstance(v, Dead):
            self.err(node, "use of a buffer after the loop nest that writes it (%s)" % v.why)
        self.err(node, "a value of kind %s where an array is expected" % type(v).__name__)

    @staticmethod
    def zlit(n):
        return str(n) if n >= 0 else "(%d)" % n

    # ---- expressions -----------------------------------------------------------------------
    def ev(self, n, env):
        if isinstance(n, ast.Constant):
            if n.value is None:
                return NoneV()
            if isinstance(n.value, bool):
                return Bool("true" if n.value else "false")
            if isinstance(n.value, int):
                return Int(self.zlit(n.value), lit=n.value)
            if isinstance(n.value, str):
                return Str(n.value)
            self.err(n, "constant not understood")
        if isinstance(n, ast.Name):
            if n.id in env.locals:
                return env.locals[n.id]
            if n.id in self.mod.modules:
                return Marker("module", self.mod.modules[n.id])
            self.err(n, "unknown name (not a parameter, not assigned on this path)")
        if isinstance(n, ast.UnaryOp):
            v = self.ev(n.operand, env)
            if isinstance(n.op, ast.USub):
                if isinstance(v, Int) and v.lit is not None:
                    return Int(self.zlit(-v.lit), lit=-v.lit)
                return Int("(- %s)" % self.as_int(v, n))
            if isinstance(n.op, ast.Not) and isinstance(v, Bool):
                return Bool("(negb %s)" % v.term, var=v.var, pol=not v.pol) if v.var else Bool("(negb %s)" % v.term)
            self.err(n, "unary operator not understood")
        if isinstance(n, ast.BinOp):
            return self.binop(n, env)
        if isinstance(n, ast.BoolOp):
            vs = [self.ev(x, env) for x in n.values]
            if not all(isinstance(v, Bool) for v in vs):
                self.err(n, "and / or of something that is not a test")
            op = " && " if isinstance(n.op, ast.And) else " || "
            t = vs[0].term
            for v in vs[1:]:
                t = "(%s%s%s)" % (t, op, v.term)
            return Bool(t)
        if isinstance(n, ast.Compare):
            return self.compare(n, env)
        if isinstance(n, ast.Tuple):
            vs = [self.ev(e, env) for e in n.elts]
            if all(isinstance(v, (Int, Bool)) for v in vs) and vs:
                return Tup([("i", self.as_int(v, n)) for v in vs])
            return Marker("pytuple", vs)
        if isinstance(n, (ast.ListComp, ast.GeneratorExp)):
            if isinstance(n, ast.GeneratorExp):
                self.err(n, "generator expression outside tuple() / all() / any()")
            return self.comp(n, env, "list")
        if isinstance(n, ast.Attribute):
            return self.attr(n, env)
        if isinstance(n, ast.Subscript):
            return self.subscript(n, env)
        if isinstance(n, ast.Call):
            return self.call(n, env)
        self.err(n, "expression form not understood")

    def binop(self, n, env):
        a, b = self.ev(n.left, env), self.ev(n.right, env)
        if isinstance(a, Tup) or isinstance(b, Tup):
            if isinstance(n.op, ast.Add) and isinstance(a, Tup) and isinstance(b, Tup):
                return Tup(a.segs + b.segs, a.outlen or b.outlen)
            if isinstance(n.op, ast.Mult) and isinstance(a, Tup) and a.all_items() and isinstance(b, (Int, Bool)):
                return Tup.var("(py_repeat %s %s)" % (a.term(), self.as_int(b, n)))
            self.err(n, "tuple arithmetic other than `tuple + tuple` and `(literal tuple) * int`")
        x, y = self.as_int(a, n), self.as_int(b, n)
        if isinstance(n.op, ast.Add):
            return Int("(%s + %s)" % (x, y))
        if isinstance(n.op, ast.Sub):
            return Int("(%s - %s)" % (x, y))
        if isinstance(n.op, ast.Mult):
            return Int("(%s * %s)" % (x, y))
        if isinstance(n.op, ast.FloorDiv):
            return Int(self.bindm(env, "q", "py_floordiv %s %s" % (x, y), n))      # ZeroDivisionError
        self.err(n, "binary operator not understood")

    def compare(self, n, env):
        if len(n.ops) != 1:
            self.err(n, "chained comparison")
        op = n.ops[0]
        a, b = self.ev(n.left, env), self.ev(n.comparators[0], env)
        if isinstance(op, (ast.Is, ast.IsNot)):
            if isinstance(a, Opt) and isinstance(b, NoneV):
                return Marker("isnone", (a.term, isinstance(op, ast.Is)))
            if isinstance(a, (Tup, NoneV)) and isinstance(b, NoneV):      # already decided on this path
                return Bool("true" if isinstance(a, NoneV) == isinstance(op, ast.Is) else "false")
            self.err(n, "`is` other than `<optional strides> is None`")
        if type(op) not in CMP:
            self.err(n, "comparison operator not understood")
        name = CMP[type(op)]
        if isinstance(a, Mode) or isinstance(b, Mode):
            m, s = (a, b) if isinstance(a, Mode) else (b, a)
            if name != "eq" or not isinstance(s, Str) or s.s not in ("full", "valid") or m.lit is not None:
                self.err(n, "test on the mode other than `mode == \"full\"` / `mode == \"valid\"`")
            pol = s.s == "full"
            return Bool(m.term if pol else "(negb %s)" % m.term, var=m.term, pol=pol)
        if isinstance(a, Marker) and isinstance(b, Marker) and a.what == "xp" and b.what == "module" and b.info == "numpy" and name == "eq":
            return Bool("true")          # the model is the numpy backend: get_array_module(<numpy array>) is numpy
        x, y = self.as_int(a, n), self.as_int(b, n)
        fmt = {"lt": "(%s <? %s)", "le": "(%s <=? %s)", "eq": "(%s =? %s)", "ne": "(negb (%s =? %s))"}
        if name in fmt:
            return Bool(fmt[name] % (x, y))
        return Bool({"gt": "(%s <? %s)", "ge": "(%s <=? %s)"}[name] % (y, x))     # a > b is b < a; a >= b is b <= a

    def attr(self, n, env):
        v = self.ev(n.value, env)
        if isinstance(v, Arr) or isinstance(v, Dead):
            a = self.as_arr(v, n)
            if n.attr == "shape":
                return a.shape
            if n.attr == "dtype":
                return Marker("dtype", a.dt)
            self.err(n, "array attribute other than .shape / .dtype")
        if isinstance(v, Marker) and v.what == "module":
            return Marker("modattr", (v.info, n.attr))
        self.err(n, "attribute not understood")

    def subscript(self, n, env):
        v = self.ev(n.value, env)
        i = n.slice
        if isinstance(v, Tup):
            if isinstance(i, ast.Slice):
                if i.step is not None:
                    self.err(n, "tuple slice with a step")
                lo = "None" if i.lower is None else "(Some %s)" % self.as_int(self.ev(i.lower, env), n)
                hi = "None" if i.upper is None else "(Some %s)" % self.as_int(self.ev(i.upper, env), n)
                return Tup.var("(py_slice %s %s %s)" % (v.term(), lo, hi))
            k = self.as_int(self.ev(i, env), n)
            return Int(self.bindm(env, "e", "py_get %s %s" % (v.term(), k), n))      # IndexError
        if isinstance(v, (Arr, Dead)):
            a = self.as_arr(v, n)
            if isinstance(i, ast.Name) and isinstance(env.locals.get(i.id), Slc):       # X[slc]
                s = env.locals[i.id].s
                return Arr(Tup.var("(strided_shape %s %s)" % (a.shape.term(), s)), None, "value", a.dt,
                           at=lambda t, a=a, s=s: a.at("(vmul %s %s)" % (t, s)))
            if isinstance(i, ast.Tuple) and len(i.elts) == 2:
                ks = [self.ev(e, env) for e in i.elts]
                if not all(isinstance(k, LoopVar) for k in ks):
                    self.err(n, "array subscript other than two loop variables or a stride slice")
                if len(a.shape.segs) < 2 or a.shape.segs[0][0] != "i" or a.shape.segs[1][0] != "i":
                    self.err(n, "two subscripts into an array whose two leading lengths are not explicit")
                return Arr(Tup(a.shape.segs[2:], a.shape.outlen), "(sub2 %s %s %s)" % (self.fn_of(a), ks[0].term, ks[1].term),
                           "value", a.dt)
            self.err(n, "array subscript other than [k, j] (two loop variables) or [slc]")
        self.err(n, "subscript of a value of kind %s" % type(v).__name__)

    @staticmethod
    def fn_of(a):
        return a.fn if a.fn is not None else "(fun x__ => %s)" % a.at("x__")

    # ---- comprehensions --------------------------------------------------------------------
    def comp(self, n, env, want):
        """[E for a, b in zip(x, y)] / (E for ...) : want in list | all | any | tuple"""
        if len(n.generators) != 1:
            self.err(n, "comprehension with more than one `for`")
        g = n.generators[0]
        if g.ifs or g.is_async:
            self.err(n, "comprehension with a condition")
        it = g.iter
        if isinstance(it, ast.Call) and isinstance(it.func, ast.Name) and it.func.id == "zip" and "zip" not in env.locals and not it.keywords:
            srcs = [self.as_tup(self.ev(a, env), n).term() for a in it.args]
            if not (isinstance(g.target, ast.Tuple) and all(isinstance(e, ast.Name) for e in g.target.elts) and len(g.target.elts) == len(srcs)):
                self.err(n, "zip comprehension whose targets are not one name per zipped tuple")
            names = [e.id for e in g.target.elts]
        else:
            srcs = [self.as_tup(self.ev(it, env), n).term()]
            if not isinstance(g.target, ast.Name):
                self.err(n, "comprehension target not understood")
            names = [g.target.id]
        if len(srcs) not in (1, 2, 3) or len(set(names)) != len(names):
            self.err(n, "comprehension over %d sequences" % len(srcs))
        for nm in names:
            self.check_bindable(nm, n)
        sub = env.fork()
        if want in ("all", "any"):
            if len(srcs) == 1:
                bv = [self.fresh(names[0])]
                terms, src, head = bv, srcs[0], "fun %s" % bv[0]
            else:
                terms = ["(fst p__)", "(snd p__)"] if len(srcs) == 2 else ["(fst p__)", "(fst (snd p__))", "(snd (snd p__))"]
                src = "(combine %s %s)" % (srcs[0], srcs[1]) if len(srcs) == 2 else "(combine %s (combine %s %s))" % tuple(srcs)
                head = "fun p__"
            for nm, t in zip(names, terms):
                sub.locals[nm] = Int(t)
            e = self.ev(n.elt, sub)
            if sub.lines or not isinstance(e, Bool):
                self.err(n, "all() / any() of something other than a pure comparison")
            return Bool("(%s (%s => %s) %s)" % ("forallb" if want == "all" else "existsb", head, e.term, src))
        bvs = [self.fresh(nm) for nm in names]
        for nm, t in zip(names, bvs):
            sub.locals[nm] = Int(t)
        e = self.ev(n.elt, sub)
        if isinstance(e, SliceElt):
            if sub.lines or len(srcs) != 1 or e.step != bvs[0]:
                self.err(n, "tuple of slices other than tuple(slice(None, None, s_d) for s_d in s)")
            return Slc(srcs[0])
        val = self.as_int(e, n)
        if sub.lines:                                                # the element may raise: mapM
            pat = bvs[0] if len(bvs) == 1 else "'(%s, %s)" % (bvs[0], bvs[1]) if len(bvs) == 2 else "'(%s, (%s, %s))" % tuple(bvs)
            src = srcs[0] if len(srcs) == 1 else "(combine %s %s)" % tuple(srcs) if len(srcs) == 2 else "(combine %s (combine %s %s))" % tuple(srcs)
            body = " ".join(sub.lines) + " Ok %s" % val + "".join(reversed(sub.closers))
            body = re.sub(r"\s*\(\* L\d+ \*\)", "", body)
            return Tup.var(self.bindm(env, "l", "py_mapM (fun %s => %s) %s" % (pat, body, src), n))
        if len(srcs) == 1:
            return Tup.var("(map (fun %s => %s) %s)" % (bvs[0], val, srcs[0]))
        return Tup.var("(%s (fun %s => %s) %s)" % ("zip2" if len(srcs) == 2 else "zip3", " ".join(bvs), val, " ".join(srcs)))

    # ---- calls -----------------------------------------------------------------------------
    def kwargs(self, n):
        kw = {}
        for k in n.keywords:
            if k.arg is None or k.arg in kw:
                self.err(n, "keyword arguments not understood")
            kw[k.arg] = k.value
        return kw

    def call(self, n, env):
        f = n.func
        kw = self.kwargs(n)
        nargs = len(n.args)
        builtin = f.id if isinstance(f, ast.Name) and f.id not in env.locals else None
        if builtin in ("tuple", "all", "any") and nargs == 1 and not kw and isinstance(n.args[0], ast.GeneratorExp):
            return self.comp(n.args[0], env, builtin)
        if builtin == "tuple" and nargs == 1 and not kw:
            return self.as_tup(self.ev(n.args[0], env), n)           # tuple(<sequence of ints>): the same sequence
        if builtin == "len" and nargs == 1 and not kw:
            return Int("(py_len %s)" % self.as_tup(self.ev(n.args[0], env), n).term())
        if builtin in ("max", "min") and nargs == 2 and not kw:
            a, b = [self.as_int(self.ev(x, env), n) for x in n.args]
            return Int("(Z.%s %s %s)" % (builtin, a, b))
        if builtin == "slice" and nargs == 3 and not kw:
            a, b, c = [self.ev(x, env) for x in n.args]
            if not (isinstance(a, NoneV) and isinstance(b, NoneV) and isinstance(c, Int)):
                self.err(n, "slice other than slice(None, None, <int>)")
            return SliceElt(c.term)
        if builtin is not None and builtin in self.mod.funcs:
            return self.call_local(builtin, n, env, kw)
        if isinstance(f, ast.Attribute):
            if f.attr == "reshape" and not (isinstance(f.value, ast.Name) and f.value.id in self.mod.modules and f.value.id not in env.locals):
                return self.reshape(n, env, kw)
            tgt = self.ev(f, env)
            if isinstance(tgt, Marker) and tgt.what == "modattr":
                return self.call_module(tgt.info, n, env, kw)
        self.err(n, "call not understood")

    def call_module(self, info, n, env, kw):
        mod, name = info
        nargs = len(n.args)
        if (mod, name) == ("sigpy.util", "prod") and nargs == 1 and not kw:
            return Int("(prodZ %s)" % self.as_tup(self.ev(n.args[0], env), n).term())
        if (mod, name) == ("sigpy.backend", "get_array_module") and nargs == 1 and not kw:
            self.as_arr(self.ev(n.args[0], env), n)
            return Marker("xp")
        if self.kind != "array":
            self.err(n, "call not understood here")
        if (mod, name) == ("numpy", "zeros"):
            if nargs != 1 or set(kw) != {"dtype"}:
                self.err(n, "np.zeros other than np.zeros(shape, dtype=<array>.dtype)")
            dt = self.ev(kw["dtype"], env)
            if not (isinstance(dt, Marker) and dt.what == "dtype"):
                self.err(n, "np.zeros whose dtype is not the dtype of an array")
            if dt.info != 0:
                self.err(n, "np.zeros whose dtype is not that of the first array argument (the model has one scalar type: the buffers "
                            "take the dtype of the first array)")
            shape = self.as_tup(self.ev(n.args[0], env), n)
            self.need_outlen(shape, env, n)
            if len(shape.segs) == 1 and shape.segs[0][0] == "v" and not re.fullmatch(r"[A-Za-z0-9_]+", shape.segs[0][1]):
                shape = Tup.var(self.let(env, "shape", shape.term(), n), shape.outlen)
            return Arr(shape, "(fun _ => zero)", "zeros", 0)
        if mod == "scipy.signal" and name in ("convolve", "correlate"):
            if nargs != 2 or set(kw) != {"mode"}:
                self.err(n, "signal.%s other than (in1, in2, mode=..)" % name)
            a, v = [self.as_arr(self.ev(x, env), n) for x in n.args]
            md = self.ev(kw["mode"], env)
            if not isinstance(md, Mode):
                self.err(n, "mode of signal.%s is not a mode" % name)
            sa, sv = a.shape.term(), v.shape.term()
            L = self.fresh("sh")
            env.lines.append("match sp_shape %s %s %s with | Err e__ => Err e__ | Ok %s =>   (* L%d: scipy.signal.%s *)" % (md.term, sa, sv, L, n.lineno, name))
            env.closers.append(" end")
            return Arr(Tup.var(L), "(sp_%s_val %s %s %s %s %s)" % (name, md.term, sa, sv, self.fn_of(a), self.fn_of(v)), "value", a.dt)
        self.err(n, "call of %s.%s not understood" % (mod, name))

    def need_outlen(self, shape, env, node):
        """the first array whose shape contains the output lengths p: the model rejects non-positive lengths"""
        if shape.outlen and not env.facts.get(("all_pos", shape.outlen)):
            env.lines.append("if negb (all_pos %s) then Err E_nonpos else   (* L%d: first array of shape .. + %s *)" % (shape.outlen, node.lineno, shape.outlen))
            env.facts[("all_pos", shape.outlen)] = True

    def reshape(self, n, env, kw):
        if self.kind != "array" or kw or len(n.args) != 1:
            self.err(n, "reshape other than <array>.reshape(<tuple>)")
        a = self.as_arr(self.ev(n.func.value, env), n)
        shape = self.as_tup(self.ev(n.args[0], env), n)
        self.need_outlen(shape, env, n)
        if a.indep:                                                   # a shape that is an independent input: numpy checks the size
            env.lines.append("if negb (%s =? %s) then Err E_reshape else   (* L%d: reshape of an array whose shape is an input *)"
                             % (a.shape.prod(), shape.prod(), n.lineno))
        return Arr(shape, "(reshape %s %s %s)" % (a.shape.term(), shape.term(), self.fn_of(a)), "value", a.dt)

    def call_local(self, name, n, env, kw):
        """a call of another covered function of conv.py"""
        callee = self.mod.funcs[name]
        pnames = [a.arg for a in callee["fn"].args.args]
        if len(n.args) > len(pnames) or any(k not in pnames for k in kw):
            self.err(n, "arguments do not fit the signature of %s" % name)
        given = dict(zip(pnames, n.args))
        for k, v in kw.items():
            if k in given:
                self.err(n, "argument %s given twice" % k)
            given[k] = v
        if set(given) != set(pnames):
            self.err(n, "call of %s relies on a default argument" % name)
        vals = [self.ev(given[p], env) for p in pnames]
        kinds = callee["spec"]["params"]
        if callee["spec"]["kind"] == "params":
            if self.kind != "array":
                self.err(n, "_get_convolve_params called outside the private array functions")
            return Marker("params9", self.arg_terms(vals, kinds, n))
        if self.kind != "public":
            self.err(n, "call of %s not understood here" % name)
        shapes, others, fns = [], [], []
        for v, k in zip(vals, kinds):
            if k == P_ARR:
                a = self.as_arr(v, n)
                if a.kind != "param":
                    self.err(n, "array argument that is not a parameter passed through")
                shapes.append(a.shape.term())
                fns.append(a.fn)
            else:
                others.append(self.arg_terms([v], [k], n)[0])
        return RCall("%s %s" % (callee["spec"]["gen"], " ".join(shapes + others + fns)))

    def arg_terms(self, vals, kinds, n):
        out = []
        for v, k in zip(vals, kinds):
            ok = {P_TUP: Tup, P_MODE: Mode, P_OPT: Opt, P_BOOL: Bool}[k]
            if not isinstance(v, ok):
                self.err(n, "argument of kind %s where %s is expected" % (type(v).__name__, k))
            out.append(v.term() if k == P_TUP else v.term)
        return out

    # ---- statements ------------------------------------------------------------------------
    def check_bindable(self, name, node):
        if name in PROTECTED or name in self.mod.modules or name in self.mod.funcs or name.endswith("__"):
            self.err(node, "assignment to the name `%s` the reading relies on" % name)

    def bind(self, env, name, v, node):
        self.check_bindable(name, node)
        if isinstance(v, Int):
            v = Int(self.let(env, name, v.term, node)) if not re.fullmatch(r"[A-Za-z0-9_]+|\(-\d+\)", v.term) or v.lit is not None else v
        elif isinstance(v, Tup):
            if not (len(v.segs) == 1 and v.segs[0][0] == "v" and re.fullmatch(r"[A-Za-z0-9_]+", v.segs[0][1])):
                v = Tup.var(self.let(env, name, v.term(), node), v.outlen)
        elif isinstance(v, Arr):
            if v.kind == "value":
                v = Arr(v.shape, self.let(env, name, self.fn_of(v), node, "list Z -> R"), "value", v.dt)
        elif isinstance(v, Mode):
            if v.lit is None and not re.fullmatch(r"[A-Za-z0-9_]+", v.term):
                self.err(node, "mode value not understood")
        elif isinstance(v, Str):
            if v.s not in ("full", "valid"):
                self.err(node, "string other than \"full\" / \"valid\"")
            v = Mode("true" if v.s == "full" else "false", lit=v.s == "full")
        elif isinstance(v, (Slc, RCall)) or (isinstance(v, Marker) and v.what == "xp"):
            pass
        else:
            self.err(node, "a value of kind %s is assigned to a variable" % type(v).__name__)
        env.locals[name] = v

    def simple(self, s, env):
        if isinstance(s, ast.Pass):
            return
        if isinstance(s, ast.Expr) and isinstance(s.value, ast.Constant) and isinstance(s.value.value, str):
            return
        if isinstance(s, ast.Assign) and len(s.targets) == 1:
            t = s.targets[0]
            if isinstance(t, ast.Name):
                self.bind(env, t.id, self.ev(s.value, env), s)
                return
            if isinstance(t, ast.Tuple) and all(isinstance(e, ast.Name) for e in t.elts):
                v = self.ev(s.value, env)
                if not (isinstance(v, Marker) and v.what == "params9") or len(t.elts) != 9 or len({e.id for e in t.elts}) != 9:
                    self.err(s, "tuple assignment other than the nine results of _get_convolve_params")
                names = [e.id for e in t.elts]
                for nm in names:
                    self.check_bindable(nm, s)
                bvs = [self.fresh(nm) for nm in names]
                env.lines.append("bind (cv_params9 %s) (fun '(%s) =>   (* L%d: %s *)" % (" ".join(v.info), ", ".join(bvs), s.lineno, san(ast.unparse(s))[:100]))
                env.closers.append(")")
                kinds = "ZLZLLLZZL"
                for i, (nm, bv, k) in enumerate(zip(names, bvs, kinds)):
                    env.locals[nm] = Int(bv) if k == "Z" else Tup.var(bv, outlen=bv if i == 8 else None)
                # arrays whose shape was handed to _get_convolve_params factor as b ++ [c_i] ++ m / [c_o; c_i] ++ n: their
                # reshapes to the normalised shapes cannot fail; any other array parameter's shape is an independent input
                for nm, a in list(env.locals.items()):
                    if isinstance(a, Arr) and a.kind == "param":
                        env.locals[nm] = Arr(a.shape, a.fn, a.kind, a.dt, indep=a.shape.term() not in v.info[:2])
                return
        self.err(s, "statement form not understood (%s)" % type(s).__name__)

    # ---- loops -----------------------------------------------------------------------------
    def loop_nest(self, s, env):
        if self.kind != "array":
            self.err(s, "loop outside the private array functions")
        loops, node = [], s
        while True:
            if node.orelse or not isinstance(node.target, ast.Name):
                self.err(node, "loop form not understood")
            it = node.iter
            if not (isinstance(it, ast.Call) and isinstance(it.func, ast.Name) and it.func.id == "range" and "range" not in env.locals
                    and len(it.args) == 1 and not it.keywords):
                self.err(node, "loop other than `for v in range(<int>)`")
            bound = self.ev(it.args[0], env)
            if not isinstance(bound, Int):
                self.err(node, "range() of something that is not an int")
            self.check_bindable(node.target.id, node)
            if node.target.id in [l[0] for l in loops]:
                self.err(node, "loop variable reused")
            loops.append((node.target.id, self.fresh(node.target.id), bound.term))
            if len(node.body) == 1 and isinstance(node.body[0], ast.For):
                node = node.body[0]
                continue
            body = node.body
            break
        for nm, bv, bound in loops:
            env.locals[nm] = LoopVar(bv, bound)
        # buffers written in the body: not readable before their write, dead after the nest
        written, accs = [], {}
        for st in body:
            if isinstance(st, ast.Assign) and len(st.targets) == 1 and isinstance(st.targets[0], ast.Subscript) and isinstance(st.targets[0].value, ast.Name):
                written.append(st.targets[0].value.id)
            elif isinstance(st, ast.AugAssign) and isinstance(st.target, ast.Subscript) and isinstance(st.target.value, ast.Name):
                written.append(st.target.value.id)
            else:
                self.err(st, "statement inside the loop nest other than `buf[slc] = ..` / `target[k, j] += ..`")
        if len(set(written)) != len(written):
            self.err(s, "an array is written by more than one statement of the loop body")
        for nm in written:
            a = env.locals.get(nm)
            if not isinstance(a, Arr) or a.kind != "zeros":
                self.err(s, "`%s` is written in the loop but is not a fresh np.zeros buffer" % nm)
            env.locals[nm] = Arr(a.shape, a.fn, a.kind, a.dt, stale="`%s` is written inside this loop nest" % nm)
        for st in body:
            if isinstance(st, ast.Assign):                            # buf[slc] = rhs   (zero-stuffing)
                t = st.targets[0]
                nm = t.value.id
                buf = env.locals[nm]
                sl = env.locals.get(t.slice.id) if isinstance(t.slice, ast.Name) else None
                if not isinstance(sl, Slc):
                    self.err(st, "assignment into an array other than through the stride slice")
                rhs = self.as_arr(self.ev(st.value, env), st)
                env.lines.append("if negb (zlist_eqb (strided_shape %s %s) %s) then Err E_bcast2 else   (* L%d: %s *)"
                                 % (buf.shape.term(), sl.s, rhs.shape.term(), st.lineno, san(ast.unparse(st))[:90]))
                env.locals[nm] = Arr(buf.shape, "(zero_stuff %s %s)" % (sl.s, self.fn_of(rhs)), "stuffed", buf.dt)
            else:                                                     # target[k, j] += rhs
                if not isinstance(st.op, ast.Add):
                    self.err(st, "in-place update other than +=")
                t = st.target
                nm = t.value.id
                tgt = env.locals[nm]
                if not (isinstance(t.slice, ast.Tuple) and all(isinstance(e, ast.Name) and isinstance(env.locals.get(e.id), LoopVar) for e in t.slice.elts)):
                    self.err(st, "accumulation target subscript is not a tuple of loop variables")
                idx = [e.id for e in t.slice.elts]
                if len(set(idx)) != len(idx) or len(idx) < 1:
                    self.err(st, "accumulation target subscripts are not distinct loop variables")
                if len(tgt.shape.segs) < len(idx):
                    self.err(st, "accumulation target has fewer explicit axes than subscripts")
                for e, (kind, dim) in zip(idx, tgt.shape.segs):
                    if kind != "i" or env.locals[e].bound != dim:
                        self.err(st, "loop `for %s in range(%s)` does not run over the axis of length `%s` it subscripts" % (e, env.locals[e].bound, dim))
                rhs = self.as_arr(self.ev(st.value, env), st)
                rest = Tup(tgt.shape.segs[len(idx):], tgt.shape.outlen)
                env.lines.append("if negb (zlist_eqb %s %s) then Err E_bcast2 else   (* L%d: += into %s[%s] *)"
                                 % (rhs.shape.term(), rest.term(), st.lineno, nm, ", ".join(idx)))
                accs[nm] = (idx, rhs, st)
        if not accs:
            self.err(s, "loop nest without an accumulation")
        for nm, (idx, rhs, st) in accs.items():
            tgt = env.locals[nm]
            val = rhs.at("x__")
            for lnm, bv, bound in reversed(loops):
                if lnm not in idx:
                    val = "sumL (zrange 0 %s 1) (fun %s => %s)" % (bound, bv, val)
            pat = " :: ".join([env.locals[e].term for e in idx] + ["x__"])
            name = self.let(env, nm, "fun idx__ => match idx__ with | %s => %s | _ => zero end" % (pat, val), st, "list Z -> R")
            env.locals[nm] = Arr(tgt.shape, name, "value", tgt.dt)
        for nm in written:
            if nm not in accs:
                env.locals[nm] = Dead("`%s` holds the last iteration's zero-stuffed block" % nm)
        for nm, bv, bound in loops:
            env.locals[nm] = Dead("loop variable")

    # ---- control ---------------------------------------------------------------------------
    def cond(self, test, env):
        v = self.ev(test, env)
        if isinstance(v, Marker) and v.what == "isnone":
            return ("isnone",) + v.info
        if not isinstance(v, Bool):
            self.err(test, "condition is not a test the model has")
        if v.term in ("true", "false"):
            return ("static", v.term == "true")
        if v.var is not None:
            if v.var in env.facts:
                return ("static", env.facts[v.var] == v.pol)
            return ("var", v.var, v.pol)
        if v.term in env.facts:
            return ("static", env.facts[v.term])
        return ("var", v.term, True)

    @staticmethod
    def indent(lines):
        return ["  " + x for x in lines]

    def finish(self, env, tail):
        return env.lines + tail + (["".join(reversed(env.closers))] if env.closers else [])

    def run(self, stmts, env):
        stmts = list(stmts)
        while stmts:
            s = stmts.pop(0)
            if isinstance(s, ast.If):
                c = self.cond(s.test, env)          # operations of the test that may raise are bound before the branch
                if c[0] == "static":
                    stmts = list(s.body if c[1] else s.orelse) + stmts
                    continue
                cm = "   (* L%d: if %s *)" % (s.lineno, san(ast.unparse(s.test))[:100])
                e1, e2 = env.fork(), env.fork()
                if c[0] == "isnone":
                    name, isnone = c[1], c[2]
                    inner = self.fresh(name + "_some")
                    pyname = [k for k, v in env.locals.items() if isinstance(v, Opt) and v.term == name]
                    en, es = (e1, e2) if isnone else (e2, e1)
                    for k in pyname:
                        en.locals[k] = NoneV()
                        es.locals[k] = Tup.var(inner)
                    bn, bs = (s.body, s.orelse) if isnone else (s.orelse, s.body)
                    return self.finish(env, ["match %s with%s" % (name, cm), "| None =>"] + self.indent(self.run(list(bn) + stmts, en))
                                       + ["| Some %s =>" % inner] + self.indent(self.run(list(bs) + stmts, es)) + ["end"])
                var, pol = c[1], c[2]
                e1.facts[var], e2.facts[var] = pol, not pol
                bt, bf = (s.body, s.orelse) if pol else (s.orelse, s.body)
                et, ef = (e1, e2) if pol else (e2, e1)
                return self.finish(env, ["if %s then (%s" % (var, cm)] + self.indent(self.run(list(bt) + stmts, et))
                                   + [") else ("] + self.indent(self.run(list(bf) + stmts, ef)) + [")"])
            if isinstance(s, ast.Return):
                return self.finish(env, self.leaf(s, env))
            if isinstance(s, ast.Raise):
                if self.kind != "params" or s.cause is not None or not (isinstance(s.exc, ast.Call) and isinstance(s.exc.func, ast.Name)):
                    self.err(s, "raise not understood here")
                return self.finish(env, ["Err E_py   (* L%d: raise %s *)" % (s.lineno, s.exc.func.id)])
            if isinstance(s, ast.For):
                self.loop_nest(s, env)
                continue
            self.simple(s, env)
        raise TranslationError("%s: a path ends without a return" % self.fn.name)

    def leaf(self, s, env):
        if s.value is None:
            self.err(s, "return without a value")
        cm = "   (* L%d: %s *)" % (s.lineno, san(ast.unparse(s))[:100])
        if self.kind == "params":
            v = self.ev(s.value, env)
            want = [Int, Tup, Int, Tup, Tup, Tup, Int, Int, Tup]
            if not (isinstance(v, Marker) and v.what == "pytuple" and len(v.info) == 9 and all(isinstance(x, w) for x, w in zip(v.info, want))):
                self.err(s, "the returned value is not (D, b, B, m, n, s, c_i, c_o, p) with ints and tuples in these places")
            return ["Ok (%s)%s" % (", ".join(x.term if isinstance(x, Int) else x.term() for x in v.info), cm)]
        v = self.ev(s.value, env)
        if isinstance(v, RCall) and self.kind == "public":
            return [v.term + cm]
        if self.kind != "array":
            self.err(s, "the public function does not return the result of the private one")
        a = self.as_arr(v, s)
        if a.kind != "value":
            self.err(s, "the returned array is not a computed one")
        return ["Ok (%s, %s)%s" % (a.shape.term(), self.fn_of(a), cm)]

    # ---- the whole function ----------------------------------------------------------------
    def translate(self):
        a = self.fn.args
        spec = self.spec
        if a.vararg or a.kwarg or a.kwonlyargs or a.posonlyargs or a.kw_defaults or self.fn.decorator_list:
            raise TranslationError("%s: signature / decorators not understood" % self.fn.name)
        names = [x.arg for x in a.args]
        kinds = spec["params"]
        if len(names) != len(kinds):
            raise TranslationError("%s takes %d parameters, the model %d" % (self.fn.name, len(names), len(kinds)))
        # the documented defaults (a changed default changes every call that omits the argument)
        defaults = [ast.unparse(d) for d in a.defaults]
        if defaults != spec["defaults"]:
            raise TranslationError("%s: default arguments %s, the documented ones are %s" % (self.fn.name, defaults, spec["defaults"]))
        for node in ast.walk(self.fn):
            if isinstance(node, (ast.Global, ast.Nonlocal, ast.FunctionDef, ast.AsyncFunctionDef, ast.Lambda, ast.ClassDef, ast.Try,
                                 ast.With, ast.While, ast.Yield, ast.YieldFrom, ast.Await, ast.NamedExpr, ast.Delete)) and node is not self.fn:
                raise TranslationError("%s, conv.py line %d: %s not understood" % (self.fn.name, getattr(node, "lineno", 0), type(node).__name__))
        env = Env()
        binders, lem_args = [], []
        arrs = [nm for nm, k in zip(names, kinds) if k == P_ARR]
        shape_names = {nm: nm + "_shape" for nm in arrs}
        allnames = names + list(shape_names.values())
        for nm in allnames:
            if nm in RESERVED or nm in PROTECTED or nm in self.mod.modules or nm in self.mod.funcs or nm.endswith("__") \
                    or not re.fullmatch(r"[A-Za-z_][A-Za-z0-9_]*", nm) or re.fullmatch(r".*_\d+", nm):
                raise TranslationError("%s: parameter name `%s` clashes with the generated text" % (self.fn.name, nm))
        if len(set(allnames)) != len(allnames):
            raise TranslationError("%s: a parameter is named like the shape of an array parameter" % self.fn.name)
        for nm in arrs:
            binders.append("(%s : list Z)" % shape_names[nm])
        for nm, k in zip(names, kinds):
            if k == P_TUP:
                binders.append("(%s : list Z)" % nm)
                env.locals[nm] = Tup.var(nm)
            elif k == P_MODE:
                binders.append("(%s : bool)" % nm)
                env.locals[nm] = Mode(nm)
            elif k == P_OPT:
                binders.append("(%s : option (list Z))" % nm)
                env.locals[nm] = Opt(nm)
            elif k == P_BOOL:
                binders.append("(%s : bool)" % nm)
                env.locals[nm] = Bool(nm, var=nm, pol=True)
        for i, nm in enumerate(arrs):
            binders.append("(%s : list Z -> R)" % nm)
            env.locals[nm] = Arr(Tup.var(shape_names[nm]), nm, "param", i, indep=True)
        order = [shape_names[nm] for nm in arrs] + [nm for nm, k in zip(names, kinds) if k != P_ARR] + arrs
        return binders, order, self.run(self.fn.body, env)


# ---------------------------------------------------------------------------------------------
# module-level facts, rendering
# ---------------------------------------------------------------------------------------------
DEF3 = ["'full'", "None", "False"]
SPECS = [
    dict(py="_get_convolve_params", gen="gen__get_convolve_params", kind="params", params=[P_TUP, P_TUP, P_MODE, P_OPT, P_BOOL], defaults=[]),
    dict(py="_convolve", gen="gen__convolve", hand="convolve", kind="array", params=[P_ARR, P_ARR, P_MODE, P_OPT, P_BOOL], defaults=DEF3),
    dict(py="_convolve_data_adjoint", gen="gen__convolve_data_adjoint", hand="convolve_data_adjoint", kind="array",
         params=[P_ARR, P_ARR, P_TUP, P_MODE, P_OPT, P_BOOL], defaults=DEF3),
    dict(py="_convolve_filter_adjoint", gen="gen__convolve_filter_adjoint", hand="convolve_filter_adjoint", kind="array",
         params=[P_ARR, P_ARR, P_TUP, P_MODE, P_OPT, P_BOOL], defaults=DEF3),
    dict(py="convolve", gen="gen_convolve", hand="convolve", kind="public", params=[P_ARR, P_ARR, P_MODE, P_OPT, P_BOOL], defaults=DEF3),
    dict(py="convolve_data_adjoint", gen="gen_convolve_data_adjoint", hand="convolve_data_adjoint", kind="public",
         params=[P_ARR, P_ARR, P_TUP, P_MODE, P_OPT, P_BOOL], defaults=DEF3),
    dict(py="convolve_filter_adjoint", gen="gen_convolve_filter_adjoint", hand="convolve_filter_adjoint", kind="public",
         params=[P_ARR, P_ARR, P_TUP, P_MODE, P_OPT, P_BOOL], defaults=DEF3),
]
COVERED = "convolve, convolve_data_adjoint, convolve_filter_adjoint, _get_convolve_params, _convolve, _convolve_data_adjoint, _convolve_filter_adjoint; CPU path"
LEMMAS = ["gen__get_convolve_params_agree_rank3", "gen__get_convolve_params_agree_rank4_multichannel"] + \
         [sp["gen"] + "_ok" for sp in SPECS if sp["kind"] != "params"]
WANT_IMPORTS = {"np": "numpy", "signal": "scipy.signal", "backend": "sigpy.backend", "config": "sigpy.config", "util": "sigpy.util"}


class Module:
    def __init__(self, tree):
        self.tree = tree
        self.modules = {}      # local name -> module
        self.funcs = {}        # python name -> {"fn": node, "spec": spec}
        self.facts()

    def facts(self):
        tree = self.tree
        for node in ast.walk(tree):
            if isinstance(node, ast.Import):
                for a in node.names:
                    self.modules[a.asname or a.name.split(".")[0]] = a.name if a.asname else a.name.split(".")[0]
            if isinstance(node, ast.ImportFrom):
                for a in node.names:
                    if a.name == "*":
                        raise TranslationError("conv.py line %d: `import *`" % node.lineno)
                    self.modules[a.asname or a.name] = "%s.%s" % (node.module, a.name)
        for nm, mod in WANT_IMPORTS.items():
            if self.modules.get(nm) != mod:
                raise TranslationError("conv.py: `%s` is no longer %s (it is %s)" % (nm, mod, self.modules.get(nm)))
        # every name bound by an import that the reading relies on is bound exactly once
        seen = {}
        for node in ast.walk(tree):
            if isinstance(node, (ast.Import, ast.ImportFrom)):
                for a in node.names:
                    b = a.asname or a.name.split(".")[0]
                    seen[b] = seen.get(b, 0) + 1
        for nm in WANT_IMPORTS:
            if seen.get(nm) != 1:
                raise TranslationError("conv.py: `%s` is imported %d times" % (nm, seen.get(nm, 0)))
        covered = {sp["py"]: sp for sp in SPECS}
        watched = set(covered) | set(WANT_IMPORTS) | PROTECTED
        count = {f: 0 for f in covered}
        for node in ast.walk(tree):
            if isinstance(node, (ast.FunctionDef, ast.AsyncFunctionDef, ast.ClassDef)) and node.name in watched:
                if isinstance(node, ast.FunctionDef) and node.name in covered and any(node is s for s in tree.body):
                    count[node.name] += 1
                    self.funcs[node.name] = {"fn": node, "spec": covered[node.name]}
                else:
                    raise TranslationError("conv.py line %d: `%s` is (re)defined" % (node.lineno, node.name))
            if isinstance(node, (ast.Global, ast.Nonlocal)) and set(node.names) & watched:
                raise TranslationError("conv.py line %d: global / nonlocal on a name the reading relies on" % node.lineno)
        for f, k in count.items():
            if k != 1:
                raise TranslationError("conv.py defines %s %d times at module level" % (f, k))

        def stores(node):
            for ch in ast.iter_child_nodes(node):
                if isinstance(ch, (ast.FunctionDef, ast.AsyncFunctionDef, ast.Lambda)):
                    continue
                if isinstance(ch, ast.Name) and isinstance(ch.ctx, (ast.Store, ast.Del)) and ch.id in watched:
                    raise TranslationError("conv.py line %d: module-level name `%s` is rebound" % (ch.lineno, ch.id))
                if isinstance(ch, (ast.Attribute, ast.Subscript)) and isinstance(ch.ctx, (ast.Store, ast.Del)):
                    raise TranslationError("conv.py line %d: module-level assignment to an attribute / item" % ch.lineno)
                stores(ch)
        stores(tree)


PRELUDE = r"""
(* ---------------- PRELUDE (fixed text) ---------------- *)
(* the reading of the Python primitives of _get_convolve_params (any Python exception is Err E_py) *)
Definition E_py := 90%nat.
Definition py_len {A} (l : list A) : Z := Z.of_nat (length l).
Definition py_b2z (b : bool) : Z := if b then 1 else 0.
Definition py_idx (n k : Z) : option nat :=
  let k' := if k <? 0 then k + n else k in
  if (0 <=? k') && (k' <? n) then Some (Z.to_nat k') else None.
Definition py_get (l : list Z) (k : Z) : result Z :=                     (* l[k]; IndexError *)
  match py_idx (py_len l) k with
  | Some j => match nth_error l j with Some a => Ok a | None => Err E_py end
  | None => Err E_py
  end.
Definition py_clamp (n k : Z) : Z := let k' := if k <? 0 then k + n else k in Z.max 0 (Z.min k' n).
Definition py_slice (l : list Z) (lo hi : option Z) : list Z :=           (* l[lo:hi] *)
  let n := py_len l in
  let a := match lo with None => 0 | Some k => py_clamp n k end in
  let b := match hi with None => n | Some k => py_clamp n k end in
  firstn (Z.to_nat (b - a)) (skipn (Z.to_nat a) l).
Definition py_repeat (l : list Z) (k : Z) : list Z := concat (repeat l (Z.to_nat k)).     (* l * k *)
Definition py_floordiv (a b : Z) : result Z := if b =? 0 then Err E_py else Ok (a / b).   (* ZeroDivisionError *)
Fixpoint py_mapM {A B} (f : A -> result B) (l : list A) : result (list B) :=
  match l with
  | [] => Ok []
  | a :: l' => bind (f a) (fun b => bind (py_mapM f l') (fun bs => Ok (b :: bs)))
  end.

(* the hand model's view of the nine values  D, b, B, m, n, s, c_i, c_o, p  of _get_convolve_params: exactly the terms
   model/Conv.v computes after Linop.conv_params.  A call of _get_convolve_params inside the array functions is read as this view;
   the function's own text is compared with it below (the gen__get_convolve_params_agree lemmas). *)
Definition cv_params9 (data_shape filt_shape : list Z) (full : bool) (strides : option (list Z)) (mc : bool)
  : result (Z * list Z * Z * list Z * list Z * list Z * Z * Z * list Z) :=
  bind (conv_params data_shape filt_shape full strides mc) (fun r =>
  let '(b, c_o, p) := r in
  let D := cv_D filt_shape mc in
  Ok (Z.of_nat D, b, prodZ b, lastn D data_shape, lastn D filt_shape, cv_s D strides, cv_ci filt_shape D mc, c_o, p)).

(* case analysis on every test that occurs (innermost first), then computation *)
Ltac tie_case :=
  match goal with
  | |- context [match ?c with _ => _ end] =>
      lazymatch c with
      | context [match _ with _ => _ end] => fail
      | _ => destruct c
      end
  end.
Ltac tie := cbv beta iota zeta; repeat (tie_case; cbv beta iota zeta); reflexivity.
"""

GRID = r"""
(* ---- _get_convolve_params vs the hand model's view: BOUNDED, on the domain of the operators
   (D = len(filt_shape) - 2 * multi_channel >= 1 and data of rank >= D + multi_channel; outside it the Python function silently
   truncates its zips / slices with -0 while the model rejects), strides >= 1 (a zero stride is ZeroDivisionError in Python);
   agreement modulo the error code.
   grid A: data, filter shapes of rank <= 3 with entries in 0..3; strides None, rank <= 2 over {1, 2}, [3], [1;2;1], [2;1;3];
           both modes; multi_channel in {false, true}
   grid B: filter shapes of rank 4 and data shapes of rank <= 4 with entries in {1, 2}; same strides and modes; multi_channel *)
Definition p9_eqb (x y : Z * list Z * Z * list Z * list Z * list Z * Z * Z * list Z) : bool :=
  let '(D, b, B, m, n, s, ci, co, p) := x in let '(D', b', B', m', n', s', ci', co', p') := y in
  (D =? D') && zlist_eqb b b' && (B =? B') && zlist_eqb m m' && zlist_eqb n n' && zlist_eqb s s' && (ci =? ci') && (co =? co')
  && zlist_eqb p p'.
Definition res9_agree (r1 r2 : result (Z * list Z * Z * list Z * list Z * list Z * Z * Z * list Z)) : bool :=
  match r1, r2 with Ok a, Ok b => p9_eqb a b | Err _, Err _ => true | _, _ => false end.
Fixpoint lists_len {T} (vals : list T) (n : nat) : list (list T) :=
  match n with O => [[]] | S k => flat_map (fun v => map (cons v) (lists_len vals k)) vals end.
Definition lists_upto {T} (vals : list T) (n : nat) : list (list T) := flat_map (lists_len vals) (seq 0 (S n)).
Definition conv_dom (d f : list Z) (mc : bool) : bool :=
  let D := py_len f - 2 * py_b2z mc in (1 <=? D) && (D + py_b2z mc <=? py_len d).
Definition conv_ok (d f : list Z) (st : option (list Z)) (full mc : bool) : bool :=
  implb (conv_dom d f mc) (res9_agree (gen__get_convolve_params d f full st mc) (cv_params9 d f full st mc)).
Definition conv_strides : list (option (list Z)) := None :: map Some (lists_upto [1; 2] 2 ++ [[3]; [1; 2; 1]; [2; 1; 3]]).
Lemma gen__get_convolve_params_agree_rank3 :
  let S := lists_upto [0; 1; 2; 3] 3 in
  forallb (fun d => forallb (fun f => forallb (fun st =>
    conv_ok d f st true true && conv_ok d f st true false && conv_ok d f st false true && conv_ok d f st false false)
    conv_strides) S) S = true.
Proof. vm_cast_no_check (eq_refl true). Qed.
Lemma gen__get_convolve_params_agree_rank4_multichannel :
  forallb (fun d => forallb (fun f => forallb (fun st => conv_ok d f st true true && conv_ok d f st false true)
    conv_strides) (lists_len [1; 2] 4)) (lists_upto [1; 2] 4) = true.
Proof. vm_cast_no_check (eq_refl true). Qed.
"""

HEADER = """(* Gen_conv.v -- GENERATED by tools/translate_conv.py from sigpy/conv.py (sha256 %s).  Do not edit.
   The CPU paths of sigpy.conv as written in the source, over the operations of model/Conv.v, and their agreement with the hand
   model.  Conventions (notes/translate_conv.md): mode is a bool (true = "full"); an array is a pair (shape, list Z -> R);
   statements become `let`s in order (comment: source line), `if` forks the path, a test already decided on the path is resolved;
   np.zeros / reshape / += / slice assignment contribute the shape tests numpy makes (E_nonpos, E_reshape, E_bcast2);
   scipy.signal.convolve / correlate are the recorded specifications sp_shape + sp_*_val; the k / j / i accumulation nest over a
   fresh np.zeros target is the closed form  target[k, i] = sum over the remaining loop variables  (sumL in loop order);
   `buf[slc] = y` on a zero buffer is zero_stuff; `x[slc]` is indexing at vmul idx s. *)
From Coq Require Import ZArith List Bool.
From SV Require Import lib.Scalar lib.BigSum lib.LoopIR lib.NdArray model.Rearrange model.Block model.Linop model.Conv.
Import ListNotations.
Local Open Scope Z_scope.
"""

UNFOLD = "cv_params9 cv_L data_adjoint_mode filt_adjoint_mode all_ge bind"


def translate_source(src):
    """-> text of gen/Gen_conv.v"""
    tree = ast.parse(src)
    mod = Module(tree)
    out = [HEADER % hashlib.sha256(src.encode()).hexdigest(), PRELUDE]
    sec_open = False
    for sp in SPECS:
        fn = mod.funcs[sp["py"]]["fn"]
        binders, order, lines = Fn(mod, sp, fn).translate()
        if sp["kind"] == "params":
            out.append("(* %s  (conv.py line %d) *)" % (sp["py"], fn.lineno))
            out.append("Definition %s %s\n  : result (Z * list Z * Z * list Z * list Z * list Z * Z * Z * list Z) :=\n  %s.\n"
                       % (sp["gen"], " ".join(binders), "\n  ".join(lines)))
            out.append(GRID)
            continue
        if not sec_open:
            out.append("Section Gen.\n  Variable R : Ops.\n")
            sec_open = True
        args = " ".join(order)
        out.append("  (* %s  (conv.py line %d) *)" % (sp["py"], fn.lineno))
        out.append("  Definition %s %s : result (list Z * (list Z -> R)) :=\n    %s." % (sp["gen"], " ".join(binders), "\n    ".join(lines)))
        if sp["kind"] == "array":
            proof = "intros. cbv delta [%s %s %s] beta. tie." % (sp["gen"], sp["hand"], UNFOLD)
        else:
            proof = "intros. cbv delta [%s] beta iota zeta. rewrite ?gen__convolve_ok, ?gen__convolve_data_adjoint_ok, ?gen__convolve_filter_adjoint_ok. reflexivity." % sp["gen"]
        out.append("  Lemma %s_ok : forall %s, %s %s = %s %s.\n  Proof. %s Qed.\n" % (sp["gen"], args, sp["gen"], args, sp["hand"], args, proof))
    out.append("End Gen.")
    return "\n".join(out) + "\n"


def translate_conv(repo, path=None):
    return translate_source(open(path or os.path.join(repo, SRC_REL)).read())


def failing_lemma(gen_text, log):
    """name of the lemma / definition a coqc error message points into"""
    m = re.search(r'line (\d+), characters', log)
    if not m:
        return None
    lines = gen_text.split("\n")
    for i in range(min(int(m.group(1)), len(lines)) - 1, -1, -1):
        mm = re.match(r"\s*(?:Lemma|Definition)\s+([A-Za-z0-9_']+)", lines[i])
        if mm:
            return mm.group(1)
    return None


def tie(ctx):
    """The two obligations props/C08.py adds: regenerate gen/Gen_conv.v from the tree under test, then compile it (the lemmas ARE
    the tie).  Returns None when both hold, else {"theorem": <translator or lemma>, "log": ...} for the no-failing-input report."""
    from tools import translate_all
    from vlib import core
    tr_err = translate_all.run(strict=False, only=["conv"])
    ctx.source_hash(SRC_REL)
    ctx.obligation("translate:%s (%s)" % (SRC_REL, COVERED), not tr_err)
    name = "tie:generated == hand model (gen/Gen_conv.v: %s)" % ", ".join(LEMMAS)
    if tr_err:
        ctx.notes.append("translator failed closed: %s" % tr_err)
        ctx.obligation(name, False)
        return {"theorem": "translate:" + SRC_REL, "log": str(tr_err)}
    ctx.checker_cmds.append("cd %s && make gen/Gen_conv.vo" % core.COQ)
    ok, log = core.coq_make(["gen/Gen_conv.vo"], timeout=900)
    ctx.obligation(name, ok)
    if ok:
        return None
    lem = None
    m = re.search(r'File "[^"]*?Gen_conv\.v", line (\d+)', log)
    if m:
        try:
            lem = failing_lemma(open(os.path.join(core.COQ, "gen", "Gen_conv.v")).read(), "line %s, characters" % m.group(1))
        except OSError:
            lem = None
    which = "%s (gen/Gen_conv.v)" % (lem or "?")
    ctx.notes.append("generated sigpy.conv no longer equals the hand model: %s: %s" % (which, log[-1200:]))
    return {"theorem": "tie:" + which, "log": log[-2500:]}


if __name__ == "__main__":
    args = [a for a in sys.argv[1:] if not a.startswith("--")]
    sys.stdout.write(translate_conv(args[0] if args else "/repo"))
