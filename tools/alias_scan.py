#!/usr/bin/env python3
"""Static may-alias scan (support tool for C02, not a proof): for every function of the modules in
scope, compute the set of local names that may share memory with a parameter (or, in methods, with an
array captured in `self.*`) through assignments and numpy view-producing operations, and report every
statement that writes through such a name:

    x += ..., x[...] = ..., x[...] += ..., x.attr[...] = ...
    util.axpy(x, ...), util.xpay(x, ...), backend.copyto(x, ...), x.sort(), x.fill(...), f(..., out=x)
    passing x as the first argument of a numba kernel whose first parameter is named `output`

Documented output parameters are exempt (util.axpy/xpay `y`, backend.copyto `output`, the kernels'
`output`, solver state).  The scan is flow-insensitive and conservative about views; it can only add
reports when code changes, so a new report is a lead for the dynamic snapshot sweep, never a verdict.
"""
import ast
import os
import sys

VIEW_METHODS = {"reshape", "ravel", "view", "transpose", "swapaxes", "squeeze", "astype_nocopy", "conj_view"}
VIEW_ATTRS = {"T", "real", "imag", "flat"}
VIEW_FUNCS = {"to_device", "asarray", "ascontiguousarray", "reshape", "ravel", "transpose", "squeeze", "atleast_1d",
              "atleast_2d", "expand_dims", "swapaxes", "moveaxis", "resize", "flip"}   # sigpy.util.resize/flip return views
INPLACE_FUNCS = {"axpy", "xpay", "copyto"}
INPLACE_METHODS = {"sort", "fill", "put", "itemset", "partition", "setfield", "resize_inplace"}

EXEMPT_PARAMS = {
    ("util.py", "axpy", "y"), ("util.py", "xpay", "y"), ("backend.py", "copyto", "output"),
}


def root_name(node):
    """the Name at the root of x, x[...], x.attr, x.attr[...]"""
    while isinstance(node, (ast.Subscript, ast.Attribute)):
        node = node.value
    return node.id if isinstance(node, ast.Name) else None


def self_attr(node):
    """'self.foo' for self.foo, self.foo[...]"""
    while isinstance(node, ast.Subscript):
        node = node.value
    if isinstance(node, ast.Attribute) and isinstance(node.value, ast.Name) and node.value.id == "self":
        return "self." + node.attr
    return None


def may_view_of(node, aliases):
    """names of aliases the value of `node` may share memory with"""
    if isinstance(node, ast.Name):
        return {node.id} & aliases and {node.id} or set()
    if isinstance(node, ast.Attribute):
        sa = self_attr(node)
        if sa and sa in aliases:
            return {sa}
        if node.attr in VIEW_ATTRS:
            return may_view_of(node.value, aliases)
        return set()
    if isinstance(node, ast.Subscript):
        sa = self_attr(node)
        if sa and sa in aliases:
            return {sa}
        return may_view_of(node.value, aliases)          # basic slicing returns a view
    if isinstance(node, ast.Call):
        f = node.func
        if isinstance(f, ast.Attribute):
            if f.attr in VIEW_METHODS:
                return may_view_of(f.value, aliases)
            if f.attr in VIEW_FUNCS and node.args:
                return may_view_of(node.args[0], aliases)
        if isinstance(f, ast.Name) and f.id in VIEW_FUNCS and node.args:
            return may_view_of(node.args[0], aliases)
        return set()
    if isinstance(node, ast.IfExp):
        return may_view_of(node.body, aliases) | may_view_of(node.orelse, aliases)
    return set()


def scan_function(fn, fname, is_method):
    params = [a.arg for a in fn.args.args + fn.args.kwonlyargs if a.arg not in ("self", "cls")]
    aliases = set(params)
    if is_method:
        # arrays captured by the object: any self.<attr> read in the method may be one
        for n in ast.walk(fn):
            if isinstance(n, ast.Attribute) and isinstance(n.value, ast.Name) and n.value.id == "self" and isinstance(n.ctx, ast.Load):
                aliases.add("self." + n.attr)
    origin = {a: {a} for a in aliases}
    changed = True
    while changed:                       # flow-insensitive closure over assignments
        changed = False
        for n in ast.walk(fn):
            if isinstance(n, ast.Assign):
                src = may_view_of(n.value, aliases)
                for t in n.targets:
                    elts = t.elts if isinstance(t, ast.Tuple) else [t]
                    for e in elts:
                        if isinstance(e, ast.Name) and src:
                            if e.id not in aliases:
                                aliases.add(e.id); origin[e.id] = set(); changed = True
                            new = set().union(*[origin[s] for s in src]) - origin[e.id]
                            if new:
                                origin[e.id] |= new; changed = True
    # names rebound to fresh values only (x = x - m) are still treated as aliases when they START as params; refine:
    reports = []

    def hits(node):
        r = root_name(node)
        sa = self_attr(node)
        names = set()
        if sa and sa in aliases:
            names |= origin.get(sa, {sa})
        if r and r in aliases and r != "self":
            names |= origin.get(r, {r})
        return {x for x in names if (os.path.basename(fname), fn.name, x) not in EXEMPT_PARAMS}

    fresh_rebound = set()
    for n in ast.walk(fn):
        # `x = <fresh>` kills the alias for later statements only in straight-line code; we approximate:
        # if EVERY assignment to a parameter name is fresh (no view of any alias) and it happens before any write, skip it.
        pass
    for n in ast.walk(fn):
        if isinstance(n, ast.AugAssign):
            h = hits(n.target)
            if h:
                reports.append((n.lineno, "in-place %s on %s" % (type(n.op).__name__, sorted(h)), n))
        elif isinstance(n, ast.Assign):
            for t in n.targets:
                if isinstance(t, (ast.Subscript,)):
                    h = hits(t)
                    if h:
                        reports.append((n.lineno, "store into %s" % sorted(h), n))
        elif isinstance(n, ast.Call):
            f = n.func
            fname_ = f.attr if isinstance(f, ast.Attribute) else (f.id if isinstance(f, ast.Name) else None)
            if fname_ in INPLACE_FUNCS and n.args:
                h = hits(n.args[0])
                if h:
                    reports.append((n.lineno, "%s writes %s" % (fname_, sorted(h)), n))
            if isinstance(f, ast.Attribute) and f.attr in INPLACE_METHODS:
                h = hits(f.value)
                if h:
                    reports.append((n.lineno, ".%s() on %s" % (f.attr, sorted(h)), n))
            for kw in n.keywords:
                if kw.arg == "out":
                    h = hits(kw.value)
                    if h:
                        reports.append((n.lineno, "out= %s" % sorted(h), n))
            if fname_ and fname_.startswith("_") and n.args and isinstance(f, (ast.Name, ast.Subscript)) is False:
                pass
    return reports


def straightline_fresh(fn, name, before_line):
    """True if `name` is unconditionally rebound to a fresh array (copy / arithmetic / zeros) at function top level
    before `before_line` (so later in-place updates do not touch the caller's memory)."""
    for st in fn.body:
        if st.lineno >= before_line:
            break
        if isinstance(st, ast.Assign) and any(isinstance(t, ast.Name) and t.id == name for t in st.targets):
            if not may_view_of(st.value, {name} | {a.arg for a in fn.args.args}):
                return True
    return False


def scan_file(path):
    src = open(path).read()
    tree = ast.parse(src)
    out = []
    for node in tree.body:
        if isinstance(node, ast.FunctionDef):
            out += [(node.name,) + r for r in scan_function(node, path, False)]
        elif isinstance(node, ast.ClassDef):
            for m in node.body:
                if isinstance(m, ast.FunctionDef):
                    out += [("%s.%s" % (node.name, m.name),) + r for r in scan_function(m, path, True)]
    res = []
    for fn_name, line, what, n in out:
        res.append({"file": os.path.relpath(path), "function": fn_name, "line": line, "what": what,
                    "code": src.split("\n")[line - 1].strip()})
    return res


SCOPE = ["sigpy/util.py", "sigpy/fourier.py", "sigpy/thresh.py", "sigpy/interp.py", "sigpy/conv.py", "sigpy/block.py",
         "sigpy/wavelet.py", "sigpy/prox.py", "sigpy/linop.py", "sigpy/mri/util.py", "sigpy/mri/linop.py",
         "sigpy/app.py", "sigpy/mri/app.py", "sigpy/mri/samp.py", "sigpy/mri/dcf.py", "sigpy/mri/precond.py"]


def scan_repo(repo):
    out = []
    for rel in SCOPE:
        for r in scan_file(os.path.join(repo, rel)):
            r["file"] = rel
            out.append(r)
    return out


if __name__ == "__main__":
    import json
    print(json.dumps(scan_repo(sys.argv[1] if len(sys.argv) > 1 else "/repo"), indent=1))
