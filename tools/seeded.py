#!/usr/bin/env python3
"""Manage seeded defects (realistic property-breaking changes written by independent sub-agents).

  seeded.py verify <src_dir> <name>     confirm in a scratch worktree of /repo HEAD that the patch applies, the
                                        demonstration fails with it and passes without it, and the repository's test
                                        suite still passes with it; then store it as /verif/seeded/<name>/
  seeded.py detect <name> <ID> [...]    run ./check <ID> against a scratch worktree with the patch applied
                                        (SIGPY_REPO=<worktree>) and record whether a VIOLATION is reported
Scratch worktrees live under /tmp and are removed afterwards.
"""
import json, os, shutil, subprocess, sys, time

VERIF = os.path.dirname(os.path.dirname(os.path.abspath(__file__)))
REPO = "/repo"
PY = "/venv/bin/python"


def sh(cmd, cwd=None, env=None, timeout=3600):
    p = subprocess.run(cmd, cwd=cwd, env=env, stdout=subprocess.PIPE, stderr=subprocess.STDOUT, text=True, timeout=timeout)
    return p.returncode, p.stdout


def worktree(name):
    d = "/tmp/sw_%s_%d" % (name, os.getpid())
    sh(["git", "-C", REPO, "worktree", "remove", "--force", d])
    rc, out = sh(["git", "-C", REPO, "worktree", "add", "--detach", d, "HEAD"])
    if rc:
        raise RuntimeError(out)
    return d


def drop(d):
    sh(["git", "-C", REPO, "worktree", "remove", "--force", d])
    shutil.rmtree(d, ignore_errors=True)


def env_for(d):
    e = dict(os.environ)
    e.update(PYTHONPATH=d, PYTHONHASHSEED="0", OMP_NUM_THREADS="2", OPENBLAS_NUM_THREADS="2", NUMBA_NUM_THREADS="2",
             NUMBA_CACHE_DIR=os.path.join(d, ".numba_cache"))
    return e


def apply_patch(d, patch):
    rc, out = sh(["git", "-C", d, "apply", "--3way", patch])
    if rc:
        rc, out = sh(["git", "-C", d, "apply", patch])
    return rc, out


def verify(src, name, run_tests=True):
    patch = os.path.join(src, "patch.diff")
    demo = os.path.join(src, "demo.py")
    meta = json.load(open(os.path.join(src, "meta.json")))
    d = worktree(name)
    rec = {"name": name, "verified_at_repo_head": sh(["git", "-C", REPO, "rev-parse", "--short", "HEAD"])[1].strip()}
    try:
        e = env_for(d)
        rc0, out0 = sh([PY, demo], cwd=d, env=e, timeout=600)
        rec["demo_clean_rc"] = rc0
        rc, out = apply_patch(d, patch)
        rec["patch_applies"] = rc == 0
        if rc:
            rec["apply_error"] = out[-500:]
            return rec
        shutil.rmtree(os.path.join(d, ".numba_cache"), ignore_errors=True)
        for root, dirs, files in os.walk(os.path.join(d, "sigpy")):
            if "__pycache__" in dirs:
                shutil.rmtree(os.path.join(root, "__pycache__"), ignore_errors=True)
        rc1, out1 = sh([PY, demo], cwd=d, env=e, timeout=600)
        rec["demo_mutated_rc"] = rc1
        rec["demo_mutated_tail"] = out1[-400:]
        if run_tests:
            t0 = time.time()
            rc2, out2 = sh([PY, "-m", "pytest", "-q", "-p", "no:cacheprovider", "--timeout=900", "-x",
                            "--ignore=tests/learn", "tests"], cwd=d, env=e, timeout=3000)
            rec["tests_rc"] = rc2
            rec["tests_tail"] = out2.strip().split("\n")[-1]
            rec["tests_s"] = round(time.time() - t0)
        rec["confirmed"] = bool(rc0 == 0 and rc1 != 0 and (not run_tests or rec["tests_rc"] == 0))
    finally:
        drop(d)
    dst = os.path.join(VERIF, "seeded", name)
    if rec.get("confirmed"):
        os.makedirs(dst, exist_ok=True)
        shutil.copy(patch, os.path.join(dst, "patch.diff"))
        shutil.copy(demo, os.path.join(dst, "demo.py"))
        meta["confirmation"] = rec
        meta["what_i_ran"] = ("scratch worktree of /repo HEAD: demo.py on the clean tree (exit 0), git apply patch.diff, demo.py (exit != 0), "
                              "pytest -q --ignore=tests/learn tests (all pass)")
        json.dump(meta, open(os.path.join(dst, "meta.json"), "w"), indent=1)
    return rec


def detect(name, pids, tier="quick"):
    dst = os.path.join(VERIF, "seeded", name)
    d = worktree(name)
    out = {}
    try:
        rc, o = apply_patch(d, os.path.join(dst, "patch.diff"))
        if rc:
            return {"error": "patch does not apply: " + o[-300:]}
        for pid in pids:
            e = dict(os.environ)
            e["SIGPY_REPO"] = d
            e["VERIF_EVIDENCE_DIR"] = os.path.join(VERIF, "build", "evidence_mutants")
            t0 = time.time()
            rc, o = sh([os.path.join(VERIF, "check"), pid, "--tier", tier], cwd=VERIF, env=e, timeout=3000)
            lines = [l for l in o.split("\n") if l.startswith(("VIOLATION", "KNOWN-FINDING"))]
            whats = []
            for l in lines:
                if "replay=" in l:
                    rp = l.split("replay=")[1].split()[0]
                    try:
                        whats.append(json.load(open(rp)).get("what", "")[:160])
                    except Exception:
                        pass
            out[pid] = {"rc": rc, "violations": lines, "what": whats, "wall_s": round(time.time() - t0)}
    finally:
        drop(d)
    p = os.path.join(dst, "detection.json")
    prev = json.load(open(p)) if os.path.exists(p) else {}
    prev.update(out)
    json.dump(prev, open(p, "w"), indent=1)
    return out


if __name__ == "__main__":
    if sys.argv[1] == "verify":
        r = verify(sys.argv[2], sys.argv[3], run_tests="--no-tests" not in sys.argv)
        print(json.dumps(r, indent=1))
    elif sys.argv[1] == "detect":
        r = detect(sys.argv[2], sys.argv[3:])
        print(json.dumps(r, indent=1))
