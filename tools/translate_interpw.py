#!/usr/bin/env python3
"""Fail-closed translator: the Python WRAPPER layer of sigpy/interp.py (Python `ast`) -> Gallina.

From the SOURCE TEXT of interp.py it regenerates, on every run, coq/gen/Gen_interpw.v:

    gen_interpolate, gen_gridding            the wrappers `interpolate` / `gridding`: batch / point flattening, kernel
                                             width / param normalisation to per-axis arrays, dispatch on ndim to the numba
                                             loop kernels (gen/Gen_interp.v, translate_loops.py), output shape
    gen_interpolate_defaults, gen_gridding_defaults, gen_kernels, gen_get_interpolate_kernel, gen_get_gridding_kernel,
    gen_get_interpolate_members, gen_get_gridding_members
                                             the signatures' defaults and the module-level dispatch tables
    gen_kaiser_bessel_kernel                 _kaiser_bessel_kernel over COps + the oracles csqrt / cexp

each followed by a lemma  gen_<f>_ok : generated = hand model  (model/Interp.v: interpolate, gridding; model/InterpW.v:
the rest) proved by unfolding, case analysis on the scalar-or-sequence arguments, and `reflexivity` -- nothing else.
The six loop kernels and _spline_kernel are NOT translated here (gen/Gen_interp.v IS their model).

How the wrappers are read (see notes/translate_interpw.md):
  * symbolic execution in statement order; every assignment of a computed value is a `let` (comment: source line);
  * an array value is (data : list Z -> R or C, shape : list Z); shapes are kept SYMBOLICALLY as concatenations of
    segments (whole shape of a parameter, `s[:-n]` = droplast n s, `s[-n:]` = lastn n s, single extents, products), so
    that every `.reshape(..)` can be recognised as one of the five C-order regroupings the hand model has an operation
    for (flatten the leading axes, coordinate rows, (A ++ B) -> [prod A; prod B], and the two inverses); any other
    reshape FAILS CLOSED;
  * `coord.shape[-1]` is a nat (an extent); `np.isscalar(w)` on the width / param argument is the case analysis of the
    model's `wp` (WScalar / WList); `xp.array(.., coord.dtype)` is the 1-D array of the listed C values; `xp.zeros(..,
    dtype=input.dtype)` is the zero array; `backend.get_array_module(input)` is numpy (the CPU path: `if xp == np` is
    decided here, the cuda branch is not read);
  * `_interpolate[kernel][ndim - 1](output, input, coord, width, param)`: the module-level dictionary is read from the
    module (`for kernel in KERNELS: _interpolate[kernel] = _get_interpolate(kernel)`), the getter's returned tuple gives
    the loop kernel for ndim = 1, 2, 3 (any other ndim: Err 2), arguments are bound positionally to the loop kernel's
    parameter names, the first argument is updated IN PLACE (exec <nest> [] output).

Entry points: translate_interpw(repo[, path]); translate_source(src); tie(ctx) for props/C07.py;
tools/test_translate_interpw.py is the self-test.
"""
import ast
import hashlib
import os
import re
import sys
from decimal import Decimal
from fractions import Fraction


class TranslationError(Exception):
    pass


SRC_REL = "sigpy/interp.py"
GEN = "Gen_interpw.v"

RESERVED = {"by", "at", "in", "as", "end", "fun", "let", "if", "then", "else", "with", "using", "return", "fix", "cofix",
            "match", "forall", "exists", "where", "for", "mod", "Set", "Prop", "Type", "IF", "R", "C", "kern", "wt",
            "csqrt", "cexp", "idx", "exec", "nest", "Ok", "Err", "nil", "cons", "app", "repeat", "length", "last",
            "droplast", "lastn", "firstn", "skipn", "prodZ", "ravel", "unravel", "zero", "nth", "true", "false"}


def san(text):
    """Python source inside a Coq comment."""
    return " ".join(text.split()).replace("(*", "( *").replace("*)", "* )")


def src_of(node):
    try:
        return " ".join(ast.unparse(node).split())[:140]
    except Exception:
        return ""


def fail(where, node, msg):
    ln = getattr(node, "lineno", 0)
    seg = src_of(node) if isinstance(node, ast.AST) else ""
    raise TranslationError("%s, interp.py line %d: %s%s" % (where, ln, msg, (": `%s`" % seg) if seg else ""))


def is_int(n, v=None):
    ok = isinstance(n, ast.Constant) and isinstance(n.value, int) and not isinstance(n.value, bool)
    return ok and (v is None or n.value == v)


def is_str(n):
    return isinstance(n, ast.Constant) and isinstance(n.value, str)


# ---------------------------------------------------------------------------------------------
# module-level facts
# ---------------------------------------------------------------------------------------------
KNAMES = {"spline": "KSpline", "kaiser_bessel": "KKaiserBessel"}
KFUNS = {"_spline_kernel": "FSpline", "_kaiser_bessel_kernel": "FKaiserBessel"}
GETTERS = {"_interpolate": "_get_interpolate", "_gridding": "_get_gridding"}
WRAPPERS = ("interpolate", "gridding")
WATCHED = {"np", "nb", "backend", "util", "config", "KERNELS", "_interpolate", "_gridding", "_get_interpolate", "_get_gridding",
           "_spline_kernel", "_kaiser_bessel_kernel", "interpolate", "gridding", "abs", "list", "range"}


class Module:
    """What the module says outside the two wrappers; every deviation from the expected layout fails closed."""

    def __init__(self, tree):
        self.tree = tree
        self.top = {}
        for s in tree.body:
            if isinstance(s, ast.FunctionDef):
                if s.name in self.top:
                    fail("module", s, "`%s` is defined twice" % s.name)
                self.top[s.name] = s
        for f in WRAPPERS + tuple(GETTERS.values()) + tuple(KFUNS):
            if f not in self.top:
                raise TranslationError("module: function `%s` is missing at module level" % f)
        self.imports()
        self.rebinding()
        self.kernels = self.read_kernels()
        self.getters = {d: self.read_getter(g, d) for d, g in GETTERS.items()}
        self.read_fill_loop()

    def imports(self):
        want = {"np": ("import", "numpy"), "nb": ("import", "numba"), "backend": ("from", "sigpy"), "util": ("from", "sigpy"),
                "config": ("from", "sigpy")}
        seen = {}
        for node in ast.walk(self.tree):
            if isinstance(node, ast.Import):
                for a in node.names:
                    bound = a.asname or a.name.split(".")[0]
                    if bound in WATCHED:
                        if bound in seen or want.get(bound) != ("import", a.name):
                            fail("module", node, "import (re)binds `%s`" % bound)
                        seen[bound] = True
            if isinstance(node, ast.ImportFrom):
                for a in node.names:
                    if a.name == "*":
                        fail("module", node, "`import *`")
                    bound = a.asname or a.name
                    if bound in WATCHED:
                        if bound in seen or want.get(bound) != ("from", node.module) or a.name != bound or node.level:
                            fail("module", node, "import (re)binds `%s`" % bound)
                        seen[bound] = True
        for b in ("np", "backend", "util"):
            if b not in seen:
                raise TranslationError("module: `%s` is no longer imported as before" % b)

    def rebinding(self):
        """names the reading relies on are bound once, where expected"""
        allowed = {"KERNELS": 1, "_interpolate": 1, "_gridding": 1}
        count = {}

        def visit(node, infn):
            for ch in ast.iter_child_nodes(node):
                if isinstance(ch, (ast.FunctionDef, ast.AsyncFunctionDef, ast.ClassDef)):
                    if ch.name in WATCHED and not (isinstance(ch, ast.FunctionDef) and self.top.get(ch.name) is ch):
                        fail("module", ch, "`%s` is (re)defined" % ch.name)
                    visit(ch, ch.name if infn is None else infn)
                    continue
                if isinstance(ch, (ast.Global, ast.Nonlocal)) and set(ch.names) & WATCHED:
                    fail("module", ch, "global / nonlocal on a name the reading relies on")
                if isinstance(ch, ast.Name) and isinstance(ch.ctx, (ast.Store, ast.Del)) and ch.id in WATCHED:
                    if infn is None:
                        count[ch.id] = count.get(ch.id, 0) + 1
                        if count[ch.id] > allowed.get(ch.id, 0):
                            fail("module", ch, "module-level name `%s` is (re)bound" % ch.id)
                    elif ch.id not in ("abs", "list", "range") and infn in WRAPPERS:
                        fail(infn, ch, "assignment to the name `%s` the reading relies on" % ch.id)
                visit(ch, infn)
        visit(self.tree, None)
        # a loop kernel name is defined exactly once in the whole module (translate_loops.py finds them by name)
        names = {}
        for node in ast.walk(self.tree):
            if isinstance(node, ast.FunctionDef):
                names[node.name] = names.get(node.name, 0) + 1
        self.defcount = names

    def read_kernels(self):
        hits = [s for s in self.tree.body if isinstance(s, ast.Assign) and any(isinstance(t, ast.Name) and t.id == "KERNELS" for t in s.targets)]
        if len(hits) != 1 or len(hits[0].targets) != 1 or not isinstance(hits[0].value, (ast.List, ast.Tuple)):
            raise TranslationError("module: KERNELS is not assigned exactly once to a list of strings")
        out = []
        for e in hits[0].value.elts:
            if not is_str(e) or e.value not in KNAMES or e.value in out:
                fail("module", hits[0], "KERNELS entry is not one of the kernel names of the model")
            out.append(e.value)
        return out

    def read_getter(self, gname, dname):
        """-> ({kernel string: kernel function name}, [loop kernel FunctionDef in tuple order])"""
        fn = self.top[gname]
        a = fn.args
        if [x.arg for x in a.args] != ["kernel"] or a.vararg or a.kwarg or a.kwonlyargs or a.defaults or fn.decorator_list:
            fail(gname, fn, "signature is not (kernel)")
        body = [s for s in fn.body if not (isinstance(s, ast.Expr) and is_str(s.value))]
        if not body or not isinstance(body[0], ast.If):
            fail(gname, fn, "does not start with the kernel-name `if` chain")
        kmap = {}
        node = body[0]
        while True:
            t = node.test
            ok = (isinstance(t, ast.Compare) and len(t.ops) == 1 and isinstance(t.ops[0], ast.Eq) and isinstance(t.left, ast.Name)
                  and t.left.id == "kernel" and is_str(t.comparators[0]))
            st = node.body
            ok = ok and len(st) == 1 and isinstance(st[0], ast.Assign) and len(st[0].targets) == 1 \
                and isinstance(st[0].targets[0], ast.Name) and st[0].targets[0].id == "kernel" and isinstance(st[0].value, ast.Name)
            if not ok:
                fail(gname, node, "kernel-name chain is not `if kernel == \"<name>\": kernel = <function>`")
            key, val = t.comparators[0].value, st[0].value.id
            if key in kmap or key not in KNAMES or val not in KFUNS:
                fail(gname, node, "kernel-name chain maps an unknown name / function")
            kmap[key] = val
            if not node.orelse:
                break
            if len(node.orelse) != 1 or not isinstance(node.orelse[0], ast.If):
                fail(gname, node, "kernel-name chain has an `else`")
            node = node.orelse[0]
        rest = body[1:]
        if not rest or not isinstance(rest[-1], ast.Return) or not isinstance(rest[-1].value, ast.Tuple):
            fail(gname, fn, "does not end with `return <k1>, <k2>, <k3>`")
        defs = {}
        for s in rest[:-1]:
            if not isinstance(s, ast.FunctionDef) or s.name in defs:
                fail(gname, s, "statement other than a loop-kernel definition")
            defs[s.name] = s
        members = []
        for e in rest[-1].value.elts:
            if not isinstance(e, ast.Name) or e.id not in defs:
                fail(gname, rest[-1], "returned tuple element is not a loop kernel defined here")
            m = re.fullmatch(r"(_interpolate|_gridding)([123])", e.id)
            if not m or self.defcount.get(e.id) != 1:
                fail(gname, rest[-1], "loop kernel `%s` is not one of the six kernels of gen/Gen_interp.v (defined once)" % e.id)
            d = defs[e.id]
            da = d.args
            if da.vararg or da.kwarg or da.kwonlyargs or da.defaults or da.posonlyargs:
                fail(gname, d, "loop kernel signature not understood")
            for x in ast.walk(d):
                if isinstance(x, ast.Name) and isinstance(x.ctx, ast.Store) and x.id == "kernel":
                    fail(gname, x, "the closure variable `kernel` is rebound inside a loop kernel")
            members.append(d)
        return kmap, members

    def read_fill_loop(self):
        """_interpolate = {}; _gridding = {}; for kernel in KERNELS: _interpolate[kernel] = _get_interpolate(kernel); ..."""
        for d in GETTERS:
            hits = [s for s in self.tree.body if isinstance(s, ast.Assign) and len(s.targets) == 1
                    and isinstance(s.targets[0], ast.Name) and s.targets[0].id == d]
            if len(hits) != 1 or not (isinstance(hits[0].value, ast.Dict) and not hits[0].value.keys):
                raise TranslationError("module: `%s` is not initialised exactly once as `{}`" % d)
        loops = [s for s in self.tree.body if isinstance(s, ast.For) and isinstance(s.iter, ast.Name) and s.iter.id == "KERNELS"]
        if len(loops) != 1 or loops[0].orelse or not isinstance(loops[0].target, ast.Name):
            raise TranslationError("module: there is not exactly one `for <k> in KERNELS:` loop at module level")
        var = loops[0].target.id
        filled = {}
        for s in loops[0].body:
            ok = (isinstance(s, ast.Assign) and len(s.targets) == 1 and isinstance(s.targets[0], ast.Subscript)
                  and isinstance(s.targets[0].value, ast.Name) and isinstance(s.targets[0].slice, ast.Name)
                  and s.targets[0].slice.id == var and isinstance(s.value, ast.Call) and isinstance(s.value.func, ast.Name)
                  and len(s.value.args) == 1 and not s.value.keywords and isinstance(s.value.args[0], ast.Name)
                  and s.value.args[0].id == var)
            if not ok:
                fail("module", s, "statement of the KERNELS loop is not `<dict>[k] = <getter>(k)`")
            d, g = s.targets[0].value.id, s.value.func.id
            if d in filled or GETTERS.get(d) != g:
                fail("module", s, "dispatch dictionary `%s` is not filled by its own getter" % d)
            filled[d] = g
        if set(filled) != set(GETTERS):
            raise TranslationError("module: the KERNELS loop does not fill both _interpolate and _gridding")
        # no other store into the dictionaries
        for node in ast.walk(self.tree):
            if isinstance(node, ast.Subscript) and isinstance(node.ctx, (ast.Store, ast.Del)) and isinstance(node.value, ast.Name) \
                    and node.value.id in GETTERS and not any(node is s.targets[0] for s in loops[0].body):
                fail("module", node, "another store into a dispatch dictionary")
            if isinstance(node, ast.Call) and isinstance(node.func, ast.Attribute) and isinstance(node.func.value, ast.Name) \
                    and node.func.value.id in GETTERS:
                fail("module", node, "method call on a dispatch dictionary")


# ---------------------------------------------------------------------------------------------
# _kaiser_bessel_kernel: a scalar function over COps + csqrt / cexp
# ---------------------------------------------------------------------------------------------
class ScalarFn:
    def __init__(self, fn):
        self.fn = fn
        self.n = {}

    def err(self, node, msg):
        fail(self.fn.name, node, msg)

    def dec(self, v, node):
        d = Decimal(repr(v))
        sign, digits, exp = d.as_tuple()
        if sign or not isinstance(exp, int) or exp > 0:
            self.err(node, "float literal is not a positive decimal fraction")
        n = int("".join(map(str, digits)))
        k = -exp
        if n >= 2 ** 53 or 10 ** k >= 2 ** 53 or float(Fraction(n, 10 ** k)) != v:
            self.err(node, "float literal is not the correctly rounded quotient of its digits")
        while k > 0 and n % 10 == 0:
            n, k = n // 10, k - 1
        return "(cdec C %d %d%%nat)" % (n, k)

    def power(self, node, env):
        base = self.expr(node.left, env)
        e = node.right
        neg = False
        if isinstance(e, ast.UnaryOp) and isinstance(e.op, ast.USub):
            neg, e = True, e.operand
        if not isinstance(e, ast.Constant) or isinstance(e.value, bool):
            self.err(node, "power with a non-literal exponent")
        if isinstance(e.value, float) and e.value == 0.5:
            t = "(csqrt %s)" % base
        elif isinstance(e.value, int) and 1 <= e.value <= 64:
            t = "(cpow C %s %d%%nat)" % (base, e.value)
        else:
            self.err(node, "power other than a positive integer literal or 0.5 (and their negatives)")
        return "(cinv C %s)" % t if neg else t

    def expr(self, node, env):
        if isinstance(node, ast.Constant) and not isinstance(node.value, bool):
            if isinstance(node.value, int):
                return "(cofZ %d)" % node.value if node.value >= 0 else self.err(node, "negative literal")
            if isinstance(node.value, float):
                return self.dec(node.value, node)
        if isinstance(node, ast.Name):
            if node.id in env:
                return env[node.id]
            self.err(node, "unknown name")
        if isinstance(node, ast.Call):
            f = node.func
            if node.keywords or len(node.args) != 1:
                self.err(node, "call not understood")
            if isinstance(f, ast.Name) and f.id == "abs" and "abs" not in env:
                return "(cabs %s)" % self.expr(node.args[0], env)
            if isinstance(f, ast.Attribute) and isinstance(f.value, ast.Name) and f.value.id == "np" and f.attr == "exp":
                return "(cexp %s)" % self.expr(node.args[0], env)
            self.err(node, "call not understood")
        if isinstance(node, ast.BinOp):
            if isinstance(node.op, ast.Pow):
                return self.power(node, env)
            ops = {ast.Add: "cadd", ast.Sub: "csub", ast.Mult: "cmul", ast.Div: "cdiv"}
            if type(node.op) not in ops:
                self.err(node, "operator not understood")
            return "(%s %s %s)" % (ops[type(node.op)], self.expr(node.left, env), self.expr(node.right, env))
        self.err(node, "expression not understood")

    def cond(self, node, env):
        if isinstance(node, ast.Compare) and len(node.ops) == 1:
            l, r = self.expr(node.left, env), self.expr(node.comparators[0], env)
            if isinstance(node.ops[0], ast.Gt):
                return "(cltb %s %s)" % (r, l)
            if isinstance(node.ops[0], ast.Lt):
                return "(cltb %s %s)" % (l, r)
        self.err(node, "condition other than `<` / `>` (the model's only comparison here is cltb)")

    def block(self, stmts, env, ind):
        pad = "  " * ind
        if not stmts:
            raise TranslationError("%s: a path ends without a return" % self.fn.name)
        s, rest = stmts[0], stmts[1:]
        if isinstance(s, ast.Expr) and is_str(s.value):
            return self.block(rest, env, ind)
        if isinstance(s, ast.Return):
            if s.value is None:
                self.err(s, "return without a value")
            return ["%s%s   (* L%d *)" % (pad, self.expr(s.value, env), s.lineno)]
        if isinstance(s, ast.Assign) and len(s.targets) == 1 and isinstance(s.targets[0], ast.Name):
            nm = s.targets[0].id
            if nm in ("np", "abs"):
                self.err(s, "assignment to a name the reading relies on")
            k = self.n.get(nm, 0) + 1
            self.n[nm] = k
            v = "%s_%d" % (nm, k)
            term = self.expr(s.value, env)
            env = dict(env)
            env[nm] = v
            return ["%slet %s := %s in   (* L%d: %s *)" % (pad, v, term, s.lineno, san(src_of(s)))] + self.block(rest, env, ind)
        if isinstance(s, ast.If):
            if s.orelse and rest:
                self.err(s, "statements after if / else")
            els = list(s.orelse) if s.orelse else rest
            return ["%sif %s then (   (* L%d: if %s *)" % (pad, self.cond(s.test, env), s.lineno, san(src_of(s.test)))] \
                + self.block(list(s.body), env, ind + 1) + ["%s) else (" % pad] + self.block(els, env, ind + 1) + ["%s)" % pad]
        self.err(s, "statement not understood (%s)" % type(s).__name__)

    def translate(self):
        a = self.fn.args
        names = [x.arg for x in a.args]
        if len(names) != 2 or a.vararg or a.kwarg or a.kwonlyargs or a.defaults or a.posonlyargs:
            raise TranslationError("%s: signature is not (x, beta)" % self.fn.name)
        for nm in names:
            if nm in RESERVED or not re.fullmatch(r"[A-Za-z_][A-Za-z0-9_]*", nm) or re.fullmatch(r".*_\d+", nm):
                raise TranslationError("%s: parameter name `%s` clashes with the generated text" % (self.fn.name, nm))
        for node in ast.walk(self.fn):
            if isinstance(node, (ast.FunctionDef, ast.Lambda, ast.Global, ast.Nonlocal)) and node is not self.fn:
                fail(self.fn.name, node, "nested definition / global")
        return names, self.block(list(self.fn.body), {n: n for n in names}, 2)


# ---------------------------------------------------------------------------------------------
# the wrappers: symbolic values
# ---------------------------------------------------------------------------------------------
class Val:
    def __init__(self, kind, **kw):
        self.kind = kind
        self.__dict__.update(kw)

    def __getattr__(self, name):          # absent attribute = None
        if name.startswith("__"):
            raise AttributeError(name)
        return None


LIT1 = ("lit", 1)


def int_lit(n):
    return Val("int", z=str(n) if n >= 0 else "(%d)" % n, nat=("%d%%nat" % n) if n >= 0 else None, key=("lit", n), lit=n)


def seg_L(key, term):
    return ("L", key, term, None)


def seg_E(iv):
    return ("E", iv.key, iv.z, iv)


def shape_term(segs):
    """Coq list term of a list of segments: extents are consed onto what follows"""
    if not segs:
        return "[]"
    if all(s[0] == "E" for s in segs):
        return "[%s]" % "; ".join(s[2] for s in segs)
    head, rest = segs[0], segs[1:]
    if head[0] == "E":
        return "(%s :: %s)" % (head[2], shape_term(rest))
    if not rest:
        return head[2]
    return "(%s ++ %s)" % (head[2], shape_term(rest))


def mk_shape(segs, term=None):
    segs = list(segs)
    return Val("shape", segs=segs, term=term or shape_term(segs), key=tuple(s[1] for s in segs))


class Env:
    def __init__(self):
        self.locals = {}
        self.lines = []
        self.inline = False

    def fork(self, inline=False):
        e = Env()
        e.locals = dict(self.locals)
        e.inline = inline or self.inline
        return e


# model vocabulary: per wrapper, the generated binders (in the hand model's argument order) and the Python parameters
SPECS = {
    "interpolate": dict(
        gen="gen_interpolate", hand="interpolate", params=["input", "coord", "kernel", "width", "param"],
        binders="(input_shape coord_shape : list Z) (coord : list Z -> C) (width param : wp C) (input : list Z -> R)",
        args="input_shape coord_shape coord width param input", result="result (list Z * (list Z -> R))", with_shape=True,
        dispatch="_interpolate", contract=None),
    "gridding": dict(
        gen="gen_gridding", hand="gridding", params=["input", "coord", "shape", "kernel", "width", "param"],
        binders="(input_shape coord_shape shape : list Z) (coord : list Z -> C) (width param : wp C) (input : list Z -> R)",
        args="input_shape coord_shape shape coord width param input", result="result (list Z -> R)", with_shape=False,
        dispatch="_gridding",
        # documented contract: input.shape == shape[:-ndim] + coord.shape[:-1]  (numpy's reshape would accept any array
        # with that many elements; the model indexes the input by batch index ++ point index)
        contract=[("L", ("drop", ("last", "coord_shape"), "shape")), ("L", ("drop", LIT1, "coord_shape"))]),
}
DEFAULTS = {"kernel": "spline", "width": 2, "param": 1}
LOOP_PARAMS = {"output": "R", "input": "R", "coord": "C", "width": "C", "param": "C"}


class Wrapper:
    def __init__(self, mod, fn, spec):
        self.mod, self.fn, self.spec = mod, fn, spec
        self.counter = {}

    def err(self, node, msg):
        fail(self.fn.name, node, msg)

    # ---- naming ----------------------------------------------------------------------------
    def fresh(self, hint):
        hint = re.sub(r"[^A-Za-z0-9_]", "_", hint)
        k = self.counter.get(hint, 0) + 1
        self.counter[hint] = k
        return "%s_%d" % (hint, k)

    def let(self, env, hint, term, node, name=None):
        if env.inline:
            return term
        name = name or self.fresh(hint)
        env.lines.append("let %s := %s in   (* L%d: %s *)" % (name, term, node.lineno, san(src_of(node))))
        return name

    # ---- shapes ----------------------------------------------------------------------------
    def nat_of(self, v, node):
        if v.kind != "int":
            self.err(node, "a value of kind %s where a count is expected" % v.kind)
        if v.nat is not None:
            return v.nat
        return "(Z.to_nat %s)" % v.z

    def slice_shape(self, sv, sl, node):
        if sv.kind != "shape" or len(sv.segs) != 1 or sv.segs[0][0] != "L" or not isinstance(sv.segs[0][1], str):
            self.err(node, "slice of something that is not the whole shape of a parameter")
        skey, sterm = sv.segs[0][1], sv.segs[0][2]
        if sl.step is not None or (sl.lower is None) == (sl.upper is None):
            self.err(node, "slice other than [:k] / [k:] / [:-k] / [-k:]")
        bound = sl.upper if sl.lower is None else sl.lower
        neg = isinstance(bound, ast.UnaryOp) and isinstance(bound.op, ast.USub)
        cnt = self.ev(bound.operand if neg else bound, self.env)
        if cnt.kind != "int" or (cnt.lit is None and cnt.nat is None) or (cnt.lit is not None and cnt.lit < 1):
            self.err(node, "slice bound is not a positive literal or an extent")
        n = self.nat_of(cnt, node)
        # s[:-n] = droplast n s, s[-n:] = lastn n s (n >= 1; n = 0, where Python gives () resp. s, is outside the model: Err 2)
        op, fn_ = {(True, True): ("drop", "droplast"), (False, True): ("take", "lastn"),
                   (True, False): ("firstn", "firstn"), (False, False): ("skipn", "skipn")}[(sl.lower is None, neg)]
        return mk_shape([seg_L((op, cnt.key, skey), "(%s %s %s)" % (fn_, n, sterm))])

    @staticmethod
    def atoms(sv, contract=None):
        out, terms = [], {}
        for kind, key, term, iv in sv.segs:
            if kind == "L":
                if isinstance(key, str) and contract is not None:
                    out += list(contract)
                    continue
                out.append(("L", key))
                terms[key] = term
            elif key[0] == "prod" and len(key[1]) == 1:
                out.append(("P", key[1][0]))
                terms[key[1][0]] = iv.of_shape.term
            elif key[0] == "last":
                out.append(("L", ("take", LIT1, key[1])))      # a single extent = a one-element segment
            else:
                out.append(("E", key))
        return out, terms

    @staticmethod
    def expand(at, other):
        """the whole shape s of a parameter is s[:-n] ++ s[-n:] for the n the other side uses"""
        if len(at) == 1 and at[0][0] == "L" and isinstance(at[0][1], str):
            s = at[0][1]
            for _, k in other:
                if isinstance(k, tuple) and k[0] in ("drop", "take") and k[2] == s:
                    return [("L", ("drop", k[1], s)), ("L", ("take", k[1], s))]
        return at

    def reshape(self, arr, tgt, node, env):
        """arr.reshape(tgt): recognised as one of the regroupings the hand model has an operation for"""
        if arr.kind != "arr" or tgt.kind != "shape":
            self.err(node, "reshape of / to something that is not an array / a shape")
        contract = self.spec["contract"] if arr.param_shape == "input_shape" else None
        src, t1 = self.atoms(arr.shape, contract)
        dst, t2 = self.atoms(tgt)
        src, dst = self.expand(src, dst), self.expand(dst, src)
        terms = dict(t1)
        terms.update(t2)
        pat = ([a[0] for a in src], [a[0] for a in dst])
        same = [a[1] for a in src] == [a[1] for a in dst]
        data = None
        if same and len(src) == 2:
            a, b = src[0][1], src[1][1]

            def tm(k):
                if k not in terms:
                    self.err(node, "reshape: a segment of the shape is never written out in the source")
                return terms[k]
            if pat == (["L", "L"], ["P", "L"]) and arr.ty == "R":
                data = "(np_reshape_lead %s %s)" % (tm(a), arr.data)
            elif pat == (["L", "L"], ["P", "L"]) and arr.ty == "C" and arr.param_shape and a == ("drop", LIT1, arr.param_shape) \
                    and b == ("take", LIT1, arr.param_shape):
                data = "(np_reshape_rows %s %s)" % (arr.param_shape, arr.data)
            elif pat == (["L", "L"], ["P", "P"]) and arr.ty == "R":
                data = "(np_reshape_2 %s %s %s)" % (tm(a), tm(b), arr.data)
            elif pat == (["P", "P"], ["L", "L"]) and arr.ty == "R":
                data = "(np_unreshape_2 %s %s %s)" % (tm(a), tm(b), arr.data)
            elif pat == (["P", "L"], ["L", "L"]) and arr.ty == "R":
                data = "(np_unreshape_lead %s %s)" % (tm(a), arr.data)
        if data is None:
            self.err(node, "reshape is not one of the regroupings of the model (flatten leading axes, coordinate rows, "
                           "(A ++ B) <-> [prod A; prod B], [prod A] ++ B -> A ++ B) for this array")
        return Val("arr", data=data, shape=tgt, ty=arr.ty, dtype=arr.dtype)

    # ---- expressions -----------------------------------------------------------------------
    def ev(self, n, env):
        self.env = env
        if isinstance(n, ast.Constant):
            if is_int(n):
                return int_lit(n.value)
            self.err(n, "constant other than an integer literal")
        if isinstance(n, ast.Name):
            if n.id in env.locals:
                return env.locals[n.id]
            if n.id in ("np", "backend", "util"):
                return Val("mod", which=n.id)
            if n.id in GETTERS:
                return Val("disp", level=0, dname=n.id)
            self.err(n, "unknown name (not a parameter, not assigned on this path)")
        if isinstance(n, ast.Attribute):
            v = self.ev(n.value, env)
            if v.kind == "arr" and n.attr == "shape":
                return v.shape
            if v.kind == "arr" and n.attr == "dtype":
                return Val("dtype", ty=v.ty, of=v.dtype)
            if v.kind == "mod" and v.which == "np" and n.attr == "floating":
                return Val("obool")
            if v.kind == "mod" and v.which == "np" and n.attr == "float32":
                return Val("f32")
            self.err(n, "attribute not understood")
        if isinstance(n, ast.Subscript):
            v = self.ev(n.value, env)
            if v.kind == "shape":
                if isinstance(n.slice, ast.Slice):
                    return self.slice_shape(v, n.slice, n)
                if len(v.segs) == 1 and v.segs[0][0] == "L" and isinstance(v.segs[0][1], str):
                    k = n.slice
                    if isinstance(k, ast.UnaryOp) and isinstance(k.op, ast.USub) and is_int(k.operand, 1):
                        # an extent is non-negative: the model keeps coord.shape[-1] as a nat
                        nt = "(Z.to_nat (last %s 0))" % v.segs[0][2]
                        return Val("int", z="(Z.of_nat %s)" % nt, nat=nt, key=("last", v.segs[0][1]))
                    if is_int(k) and k.value >= 0:
                        return Val("int", z="(nth %d%%nat %s 0)" % (k.value, v.segs[0][2]), key=("nth", k.value, v.segs[0][1]))
                self.err(n, "subscript of a shape other than [-1], [<k>] or a slice")
            if v.kind == "disp" and v.level == 0:
                k = self.ev(n.slice, env)
                if k.kind != "kname":
                    self.err(n, "dispatch dictionary indexed by something other than the `kernel` argument")
                return Val("disp", level=1, dname=v.dname)
            if v.kind == "disp" and v.level == 1:
                k = self.ev(n.slice, env)
                if not (k.kind == "int" and k.parts and k.parts[0] == "sub" and k.parts[1].nat is not None and k.parts[1].lit is None
                        and k.parts[2].lit == 1):
                    self.err(n, "loop-kernel tuple indexed by something other than `<extent> - 1`")
                return Val("disp", level=2, dname=v.dname, index=k.parts[1])
            self.err(n, "subscript not understood")
        if isinstance(n, ast.List):
            items = [self.ev(e, env) for e in n.elts]
            if items and all(i.kind == "int" for i in items):
                return mk_shape([seg_E(i) for i in items])
            if len(items) == 1 and items[0].kind == "wps":
                return Val("listc", term="[%s]" % items[0].term, single=items[0].term, len=int_lit(1))
            self.err(n, "list other than a list of extents or `[<scalar width / param>]`")
        if isinstance(n, ast.BinOp):
            a, b = self.ev(n.left, env), self.ev(n.right, env)
            if isinstance(n.op, ast.Add) and a.kind == "shape" and b.kind == "shape":
                return mk_shape(a.segs + b.segs)
            if isinstance(n.op, ast.Mult) and a.kind == "listc" and a.single and b.kind == "int":
                return Val("listc", term="(repeat %s %s)" % (a.single, self.nat_of(b, n)), len=b)
            if a.kind == "int" and b.kind == "int" and type(n.op) in (ast.Add, ast.Sub, ast.Mult):
                op = {ast.Add: ("add", "+"), ast.Sub: ("sub", "-"), ast.Mult: ("mul", "*")}[type(n.op)]
                return Val("int", z="(%s %s %s)" % (a.z, op[1], b.z), key=(op[0], a.key, b.key), parts=(op[0], a, b))
            self.err(n, "operator not understood on these values")
        if isinstance(n, ast.Compare):
            if len(n.ops) == 1 and isinstance(n.ops[0], ast.Eq):
                a, b = self.ev(n.left, env), self.ev(n.comparators[0], env)
                if a.kind == "mod" and b.kind == "mod":
                    return Val("static", value=a.which == b.which)
            self.err(n, "comparison not understood")
        if isinstance(n, ast.Call):
            return self.call(n, env)
        self.err(n, "expression form not understood")

    def call(self, n, env):
        f = n.func
        kw = {}
        for k in n.keywords:
            if k.arg is None or k.arg in kw:
                self.err(n, "keyword arguments not understood")
            kw[k.arg] = k.value
        if isinstance(f, ast.Name) and f.id == "list" and "list" not in env.locals:
            if kw or len(n.args) != 1:
                self.err(n, "list() takes one argument here")
            v = self.ev(n.args[0], env)
            if v.kind != "shape":
                self.err(n, "list() of something that is not a shape")
            return v
        if not isinstance(f, ast.Attribute):
            self.err(n, "call not understood")
        recv = self.ev(f.value, env)
        if recv.kind == "arr" and f.attr == "reshape":
            if kw or len(n.args) != 1:
                self.err(n, "reshape takes one shape here")
            return self.reshape(recv, self.ev(n.args[0], env), n, env)
        if recv.kind != "mod":
            self.err(n, "call not understood")
        name = "%s.%s" % (recv.which, f.attr)
        if name == "util.prod":
            if kw or len(n.args) != 1:
                self.err(n, "util.prod takes one argument here")
            v = self.ev(n.args[0], env)
            if v.kind != "shape":
                self.err(n, "util.prod of something that is not a shape")
            return Val("int", z="(prodZ %s)" % v.term, key=("prod", v.key), of_shape=v)
        if name == "backend.get_array_module":
            if kw or len(n.args) != 1 or self.ev(n.args[0], env).kind != "arr":
                self.err(n, "get_array_module of something that is not an array")
            return Val("mod", which="np")            # the model is the CPU path
        if name == "np.isscalar":
            if kw or len(n.args) != 1 or not isinstance(n.args[0], ast.Name):
                self.err(n, "np.isscalar of something other than a variable")
            v = self.ev(n.args[0], env)
            if v.kind != "wp":
                self.err(n, "np.isscalar of something that is not the (not yet normalised) width / param argument")
            return Val("wpcase", var=n.args[0].id, wp=v)
        if name == "np.issubdtype":
            if kw or len(n.args) != 2 or self.ev(n.args[0], env).kind != "dtype" or self.ev(n.args[1], env).kind != "obool":
                self.err(n, "np.issubdtype other than (array.dtype, np.floating)")
            return Val("obool")                      # only the cuda branch reads it
        if name == "np.result_type":
            # np.result_type(coord.dtype, np.float32): the floating dtype at least as wide as the coordinates' -- it holds the listed widths /
            # parameters exactly as coord.dtype does for floating coordinates (and, unlike it, also for integer-typed coordinates)
            if kw or len(n.args) != 2:
                self.err(n, "np.result_type other than (coord.dtype, np.float32)")
            d0, d1 = self.ev(n.args[0], env), self.ev(n.args[1], env)
            if d0.kind != "dtype" or d0.ty != "C" or d0.of != "coord" or d1.kind != "f32":
                self.err(n, "np.result_type other than (coord.dtype, np.float32)")
            return Val("dtype", ty="C", of="coord", floating=True)
        if name in ("np.zeros", "np.array"):
            dt = None
            pos = list(n.args)
            if len(pos) == 2 and not kw:
                dt = pos.pop()
            elif len(pos) == 1 and set(kw) == {"dtype"}:
                dt = kw["dtype"]
            else:
                self.err(n, "xp.%s other than (value, <dtype>) / (value, dtype=<dtype>)" % f.attr)
            d = self.ev(dt, env)
            v = self.ev(pos[0], env)
            if name == "np.zeros":
                if d.kind != "dtype" or d.ty != "R" or d.of != "input":
                    self.err(n, "xp.zeros whose dtype is not input.dtype (the output has the data's scalar type)")
                if v.kind != "shape":
                    self.err(n, "xp.zeros of something that is not a shape")
                return Val("arr", data="np_zeros", shape=v, ty="R", dtype="input")
            if d.kind != "dtype" or d.ty != "C" or d.of != "coord" or not getattr(d, "floating", False):
                self.err(n, "xp.array whose dtype is not np.result_type(coord.dtype, np.float32) (widths / params are real numbers: a bare "
                            "coord.dtype truncates them when the coordinates are stored as integers)")
            if v.kind == "listc":
                return Val("arr", data="(np_array1 %s)" % v.term, shape=mk_shape([seg_E(v.len)]), ty="C", dtype="coord")
            if v.kind == "wpl":
                ln = Val("int", z="(Z.of_nat (length %s))" % v.term, key=("len", v.term))
                return Val("arr", data="(np_array1 %s)" % v.term, shape=mk_shape([seg_E(ln)]), ty="C", dtype="coord")
            self.err(n, "xp.array of something other than `[s] * n` (s the scalar width / param) or the sequence width / param")
        self.err(n, "call not understood")

    # ---- statements ------------------------------------------------------------------------
    def bind(self, env, name, v, node):
        if name in WATCHED or name.endswith("__") or not re.fullmatch(r"[A-Za-z_][A-Za-z0-9_]*", name):
            self.err(node, "assignment to the name `%s`" % name)
        if v.kind == "int" and v.lit is None:
            if v.nat is not None:
                nm = self.let(env, name, v.nat, node)
                v = Val("int", z="(Z.of_nat %s)" % nm, nat=nm, key=v.key)
            else:
                nm = self.let(env, name, v.z, node)
                v = Val("int", z=nm, key=v.key, of_shape=v.of_shape, parts=v.parts)
        elif v.kind == "shape":
            nm = self.let(env, name, v.term, node)
            segs = [("L", v.segs[0][1], nm, None)] if len(v.segs) == 1 and v.segs[0][0] == "L" else v.segs
            v = mk_shape(segs, nm)
        elif v.kind == "arr":
            if env.inline:
                pass
            else:
                base = self.fresh(name)
                sh = mk_shape(v.shape.segs, self.let(env, name, v.shape.term, node, name=base + "_sh"))
                v = Val("arr", data=self.let(env, name, v.data, node, name=base), shape=sh, ty=v.ty, dtype=v.dtype)
        elif v.kind in ("int", "mod", "obool", "dtype"):
            pass
        else:
            self.err(node, "a value of kind %s is assigned to a variable" % v.kind)
        env.locals[name] = v

    def simple(self, s, env):
        if isinstance(s, ast.Pass) or (isinstance(s, ast.Expr) and is_str(s.value)):
            return
        if isinstance(s, ast.Assign) and len(s.targets) == 1 and isinstance(s.targets[0], ast.Name):
            self.bind(env, s.targets[0].id, self.ev(s.value, env), s)
            return
        self.err(s, "statement form not understood (%s)" % type(s).__name__)

    def wp_if(self, s, c, env):
        """if np.isscalar(w): <assignments> else: <assignments>   ->   match w with WScalar .. | WList .. end per variable"""
        var, wp = c.var, c.wp
        sname, lname = "s_" + wp.name, "l_" + wp.name
        res = []
        for body, refined in ((s.body, Val("wps", term=sname)), (s.orelse, Val("wpl", term=lname))):
            e = env.fork(inline=True)
            e.locals[var] = refined
            for st in body:
                if not isinstance(st, ast.Assign):
                    self.err(st, "statement other than an assignment inside `if np.isscalar(..)`")
                self.simple(st, e)
            res.append(e)
        if not s.orelse:
            self.err(s, "`if np.isscalar(..)` without else")
        changed = [k for k in set(res[0].locals) | set(res[1].locals)
                   if res[0].locals.get(k) is not env.locals.get(k) or res[1].locals.get(k) is not env.locals.get(k)]
        for k in sorted(changed):
            a, b = res[0].locals.get(k), res[1].locals.get(k)
            if a is None or b is None or a is env.locals.get(k) or b is env.locals.get(k) or a.kind != "arr" or b.kind != "arr" \
                    or a.ty != "C" or b.ty != "C":
                self.err(s, "`%s` is not assigned a coordinate-typed array in both branches of `if np.isscalar(..)`" % k)

            def m(x, y):
                return "match %s with WScalar _ %s => %s | WList _ %s => %s end" % (wp.name, sname, x, lname, y)
            base = self.fresh(k)
            shn = self.let(env, k, m(a.shape.term, b.shape.term), s, name=base + "_sh")
            ln = Val("int", z="(hd 0 %s)" % shn, key=("merged-len", base))
            dn = self.let(env, k, m(a.data, b.data), s, name=base)
            env.locals[k] = Val("arr", data=dn, shape=mk_shape([seg_E(ln)], shn), ty="C", dtype="coord")
        if var in env.locals and env.locals[var].kind == "wp":
            self.err(s, "the scalar-or-sequence argument `%s` is not normalised by this `if`" % var)

    @staticmethod
    def indent(lines):
        return ["  " + x for x in lines]

    def run(self, stmts, env):
        stmts = list(stmts)
        while stmts:
            s = stmts.pop(0)
            if isinstance(s, ast.If):
                c = self.ev(s.test, env)
                if c.kind == "static":
                    stmts = list(s.body if c.value else s.orelse) + stmts
                    continue
                if c.kind == "wpcase":
                    self.wp_if(s, c, env)
                    continue
                self.err(s.test, "condition not understood")
            if isinstance(s, ast.Return):
                return env.lines + self.leaf(s, env)
            if isinstance(s, ast.Expr) and isinstance(s.value, ast.Call) and isinstance(s.value.func, ast.Subscript):
                return self.dispatch(s, stmts, env)
            self.simple(s, env)
        raise TranslationError("%s: a path ends without a return" % self.fn.name)

    def dispatch(self, s, rest, env):
        call = s.value
        d = self.ev(call.func, env)
        if d.kind != "disp" or d.level != 2:
            self.err(s, "called object is not `<dispatch dictionary>[kernel][ndim - 1]`")
        if call.keywords:
            self.err(s, "keyword arguments in the loop-kernel call")
        kmap, members = self.mod.getters[d.dname]
        if not set(self.mod.kernels) <= set(kmap):
            self.err(s, "a name of KERNELS is not mapped to a kernel function by %s" % GETTERS[d.dname])
        out = list(env.lines) + ["match %s with   (* L%d: %s *)" % (d.index.nat, s.lineno, san(src_of(s)))]
        for j, m in enumerate(members):
            e = env.fork()
            e.lines = []
            names = [x.arg for x in m.args.args]
            if sorted(names) != sorted(LOOP_PARAMS) or len(call.args) != len(names):
                self.err(s, "loop kernel %s does not take (output, input, coord, width, param) / wrong number of arguments" % m.name)
            bound = {}
            for nm, a in zip(names, call.args):
                if not isinstance(a, ast.Name):
                    self.err(s, "loop-kernel argument is not a variable")
                v = self.ev(a, e)
                if v.kind != "arr" or v.ty != LOOP_PARAMS[nm]:
                    self.err(s, "argument `%s` bound to `%s` of loop kernel %s is not a %s array" % (
                        a.id, nm, m.name, "data" if LOOP_PARAMS[nm] == "R" else "coordinate"))
                bound[nm] = (a.id, v)
            args = [bound[k][1].data for k in ("input", "coord", "width", "param")] \
                + [bound[k][1].shape.term for k in ("coord", "input", "output", "param", "width")]
            oname, ov = bound["output"]
            # the loop kernel updates its `output` argument in place (its only store target; its return value is dropped)
            new = Val("arr", data="(exec (k%s R C kern wt %s) [] %s)" % (m.name, " ".join(args), ov.data), shape=ov.shape, ty="R", dtype=ov.dtype)
            self.bind(e, oname, new, s)
            out.append("| %d%%nat =>   (* %s[kernel][%d] = %s *)" % (j + 1, d.dname, j, m.name))
            out += self.indent(self.run(list(rest), e))
        out += ["| _ => Err 2   (* no such loop kernel *)", "end"]
        return out

    def leaf(self, s, env):
        if s.value is None:
            self.err(s, "return without a value")
        v = self.ev(s.value, env)
        if v.kind != "arr" or v.ty != "R":
            self.err(s, "the returned value is not a data array")
        if self.spec["with_shape"]:
            return ["Ok (%s, %s)   (* L%d: %s *)" % (v.shape.term, v.data, s.lineno, san(src_of(s)))]
        whole = [x for x in v.shape.segs]
        if not (len(whole) == 1 and whole[0][1] == "shape"):
            self.err(s, "the returned array does not have the shape given by the `shape` argument")
        return ["Ok %s   (* L%d: %s *)" % (v.data, s.lineno, san(src_of(s)))]

    def signature(self):
        a = self.fn.args
        if a.vararg or a.kwarg or a.kwonlyargs or a.posonlyargs or self.fn.decorator_list:
            raise TranslationError("%s: signature / decorators not understood" % self.fn.name)
        names = [x.arg for x in a.args]
        if names != self.spec["params"]:
            raise TranslationError("%s takes %s, the model %s" % (self.fn.name, names, self.spec["params"]))
        defs = dict(zip(names[len(names) - len(a.defaults):], a.defaults))
        if set(defs) != set(DEFAULTS):
            raise TranslationError("%s: the parameters with defaults are not kernel, width, param" % self.fn.name)
        k = defs["kernel"]
        if not is_str(k) or k.value not in KNAMES:
            fail(self.fn.name, k, "default kernel is not a kernel name of the model")
        for p in ("width", "param"):
            if not is_int(defs[p]):
                fail(self.fn.name, defs[p], "default %s is not an integer literal" % p)
        return "mkWDefaults %s %d %d" % (KNAMES[k.value], defs["width"].value, defs["param"].value)

    def translate(self):
        for node in ast.walk(self.fn):
            if isinstance(node, (ast.Global, ast.Nonlocal, ast.FunctionDef, ast.AsyncFunctionDef, ast.Lambda, ast.ClassDef)) \
                    and node is not self.fn:
                fail(self.fn.name, node, "nested definition / global statement")
        env = Env()
        for p in self.spec["params"]:
            if p in ("input", "coord"):
                ty = "R" if p == "input" else "C"
                sh = p + "_shape"
                env.locals[p] = Val("arr", data=p, shape=mk_shape([seg_L(sh, sh)]), ty=ty, dtype=p, param_shape=sh)
            elif p == "shape":
                env.locals[p] = mk_shape([seg_L("shape", "shape")])
            elif p == "kernel":
                env.locals[p] = Val("kname")
            else:
                env.locals[p] = Val("wp", name=p)
        return self.run(self.fn.body, env)


# ---------------------------------------------------------------------------------------------
# rendering
# ---------------------------------------------------------------------------------------------
HEADER = """(* Gen_interpw.v -- GENERATED by tools/translate_interpw.py from sigpy/interp.py (sha256 %s).  Do not edit.
   The Python wrapper layer of interp.py as written in the source, over the operations of model/Interp.v / model/Block.v
   (droplast, lastn, prodZ, flatten_batch, unflatten_batch, coord2, ravel, unravel, wp) around the loop kernels of
   gen/Gen_interp.v, the signatures' defaults and dispatch tables, and _kaiser_bessel_kernel over COps + csqrt / cexp
   (model/InterpW.v); each with its agreement with the hand model (unfolding, case analysis on the scalar-or-sequence
   arguments, reflexivity).  Conventions: every Python assignment of a computed value is a `let` (comment: source line);
   an array is a pair of lets <name>_sh (shape) and <name> (data); the PRELUDE below is the reading of the numpy
   primitives. *)
From Coq Require Import ZArith List Bool.
From SV Require Import lib.Scalar lib.BigSum lib.LoopIR lib.NdArray lib.Coord gen.Gen_interp model.Block model.Interp model.InterpW.
Import ListNotations.
Local Open Scope Z_scope.

Section Gen.
  Variable R : Ops.
  Variable C : COps.
  Variable kern : C -> C -> C.     (* the kernel function the getter binds to the closure variable `kernel` *)
  Variable wt : C -> R.            (* embedding of a real weight into the data scalars *)
  Variable csqrt : C -> C.         (* t ** 0.5 *)
  Variable cexp : C -> C.          (* np.exp *)

  (* ---- PRELUDE: the C-order regroupings `.reshape` is read as, and the array constructors ---- *)
  (* x of shape A ++ B viewed as [prod A] ++ B *)
  Definition np_reshape_lead (A : list Z) (x : list Z -> R) : list Z -> R := flatten_batch R A x.
  (* c of shape P ++ [d] viewed as [prod P; d] *)
  Definition np_reshape_rows (s : list Z) (c : list Z -> C) : list Z -> C := coord2 C s c.
  (* x of shape A ++ B viewed as [prod A; prod B] *)
  Definition np_reshape_2 (A B : list Z) (x : list Z -> R) : list Z -> R :=
    fun idx => match idx with [b; p] => x (unravel A b ++ unravel B p) | _ => zero end.
  (* y of shape [prod A; prod B] viewed as A ++ B *)
  Definition np_unreshape_2 (A B : list Z) (y : list Z -> R) : list Z -> R :=
    fun idx => y [ravel A (firstn (length A) idx); ravel B (skipn (length A) idx)].
  (* y of shape [prod A] ++ B viewed as A ++ B *)
  Definition np_unreshape_lead (A : list Z) (y : list Z -> R) : list Z -> R := unflatten_batch R A (length A) y.
  (* xp.zeros(shape, dtype=input.dtype) *)
  Definition np_zeros : list Z -> R := fun _ => zero.
  (* xp.array(<sequence of numbers>, coord.dtype): a 1-D array of coordinate scalars *)
  Definition np_array1 (l : list C) : list Z -> C :=
    fun idx => match idx with [k] => nth (Z.to_nat k) l (cofZ 0) | _ => cofZ 0 end.

"""

PRELUDE_NAMES = "np_reshape_lead, np_reshape_rows, np_reshape_2, np_unreshape_2, np_unreshape_lead, np_zeros, np_array1"


def render(src):
    tree = ast.parse(src)
    mod = Module(tree)
    out = [HEADER % hashlib.sha256(src.encode()).hexdigest()]
    # ---- tables -----------------------------------------------------------------------------
    out.append("  (* KERNELS  (interp.py) *)")
    out.append("  Definition gen_kernels : list kname := [%s]." % "; ".join(KNAMES[k] for k in mod.kernels))
    out.append("  Lemma gen_kernels_ok : gen_kernels = kernels.\n  Proof. reflexivity. Qed.\n")
    for d, g in GETTERS.items():
        kmap, members = mod.getters[d]
        short = g[1:]
        arms = " ".join("| %s => %s" % (KNAMES[k], KFUNS[kmap[k]]) for k in mod.kernels if k in kmap)
        if not set(mod.kernels) <= set(kmap):
            raise TranslationError("%s: a name of KERNELS is not mapped to a kernel function" % g)
        out.append("  (* %s: what the closure variable `kernel` of the loop kernels is bound to  (line %d) *)" % (g, mod.top[g].lineno))
        out.append("  Definition gen_%s_kernel (k : kname) : kfun := match k with %s end." % (short, arms))
        out.append("  Lemma gen_%s_kernel_ok : forall k, gen_%s_kernel k = kernel_of k.\n  Proof. intros k; destruct k; reflexivity. Qed." % (short, short))
        mem = "; ".join("(%s, %s)" % (m.name[-1], "true" if m.name.startswith("_gridding") else "false") for m in members)
        hand = "interpolate_members" if d == "_interpolate" else "gridding_members"
        out.append("  Definition gen_%s_members : list (Z * bool) := [%s].   (* the returned tuple *)" % (short, mem))
        out.append("  Lemma gen_%s_members_ok : gen_%s_members = %s.\n  Proof. reflexivity. Qed.\n" % (short, short, hand))
    # ---- the Kaiser-Bessel kernel --------------------------------------------------------------
    kb = mod.top["_kaiser_bessel_kernel"]
    names, lines = ScalarFn(kb).translate()
    out.append("  (* _kaiser_bessel_kernel  (line %d) *)" % kb.lineno)
    out.append("  Definition gen_kaiser_bessel_kernel (%s : C) : C :=\n%s." % (" ".join(names), "\n".join(lines)))
    out.append("  Lemma gen_kaiser_bessel_kernel_ok : forall %s : C, gen_kaiser_bessel_kernel %s = kaiser_bessel_kernel C csqrt cexp %s.\n"
               "  Proof. intros. unfold gen_kaiser_bessel_kernel, kaiser_bessel_kernel. reflexivity. Qed.\n"
               % (" ".join(names), " ".join(names), " ".join(names)))
    # ---- the wrappers ---------------------------------------------------------------------------
    out.append("  (* the loop nests and their interpreter stay folded: the two sides must agree on the ARGUMENTS handed to them *)")
    out.append("  Local Opaque k_interpolate1 k_interpolate2 k_interpolate3 k_gridding1 k_gridding2 k_gridding3 exec.\n")
    for w in WRAPPERS:
        sp = SPECS[w]
        wr = Wrapper(mod, mod.top[w], sp)
        dflt = wr.signature()
        out.append("  (* %s: defaults of the signature  (line %d) *)" % (w, mod.top[w].lineno))
        out.append("  Definition %s_defaults : wdefaults := %s." % (sp["gen"], dflt))
        out.append("  Lemma %s_defaults_ok : %s_defaults = %s_defaults.\n  Proof. reflexivity. Qed.\n" % (sp["gen"], sp["gen"], w))
        lines = wr.translate()
        out.append("  (* %s  (line %d) *)" % (w, mod.top[w].lineno))
        out.append("  Definition %s %s\n    : %s :=\n    %s." % (sp["gen"], sp["binders"], sp["result"], "\n    ".join(lines)))
        out.append("  Lemma %s_ok : forall %s,\n    %s %s = %s R C kern wt %s.\n"
                   "  Proof.\n    intros. unfold %s, %s, %s, wp_array, wp_len.\n    destruct width, param; reflexivity.\n  Qed.\n"
                   % (sp["gen"], sp["args"], sp["gen"], sp["args"], sp["hand"], sp["args"], sp["gen"], sp["hand"], PRELUDE_NAMES))
    out.append("End Gen.")
    return "\n".join(out) + "\n"


LEMMAS = ["gen_kernels_ok", "gen_get_interpolate_kernel_ok", "gen_get_interpolate_members_ok", "gen_get_gridding_kernel_ok",
          "gen_get_gridding_members_ok", "gen_kaiser_bessel_kernel_ok", "gen_interpolate_defaults_ok", "gen_interpolate_ok",
          "gen_gridding_defaults_ok", "gen_gridding_ok"]
COVERED = "interpolate, gridding, their defaults, KERNELS, _get_interpolate / _get_gridding tables, _kaiser_bessel_kernel"


def translate_source(src):
    """-> text of gen/Gen_interpw.v"""
    return render(src)


def translate_interpw(repo, path=None):
    return translate_source(open(path or os.path.join(repo, SRC_REL)).read())


def failing_lemma(gen_text, log):
    """name of the lemma / definition a coqc error message points into"""
    m = re.search(r'line (\d+), characters', log)
    if not m:
        return None
    lines = gen_text.split("\n")
    for i in range(min(int(m.group(1)), len(lines)) - 1, -1, -1):
        mm = re.match(r"\s*(?:Lemma|Definition)\s+([A-Za-z0-9_']+)", lines[i])
        if mm:
            return mm.group(1)
    return None


def tie(ctx):
    """The two obligations props/C07.py adds: regenerate gen/Gen_interpw.v from the tree under test, then compile it (the
    `_ok` lemmas ARE the tie).  Returns None when both hold, else {"theorem": <translator or lemma>, "log": ...}."""
    from tools import translate_all
    from vlib import core
    tr_err = translate_all.run(strict=False, only=["interpw"])
    ctx.source_hash(SRC_REL)
    ctx.obligation("translate:%s (wrapper layer: %s)" % (SRC_REL, COVERED), not tr_err)
    name = "tie:generated == hand model (gen/%s: %s)" % (GEN, ", ".join(LEMMAS))
    if tr_err:
        ctx.notes.append("wrapper translator failed closed: %s" % tr_err)
        ctx.obligation(name, False)
        return {"theorem": "translate:%s (tools/translate_interpw.py)" % SRC_REL, "log": str(tr_err)}
    target = "gen/%so" % GEN
    ctx.checker_cmds.append("cd %s && make %s" % (core.COQ, target))
    ok, log = core.coq_make([target], timeout=900)
    ctx.obligation(name, ok)
    if ok:
        return None
    lem = None
    m = re.search(r'File "[^"]*?%s", line (\d+)' % re.escape(GEN), log)
    if m:
        try:
            lem = failing_lemma(open(os.path.join(core.COQ, "gen", GEN)).read(), "line %s, characters" % m.group(1))
        except OSError:
            lem = None
    which = "%s (gen/%s)" % (lem or "?", GEN)
    ctx.notes.append("generated wrapper layer of interp.py no longer equals the hand model: %s: %s" % (which, log[-1200:]))
    return {"theorem": "tie:" + which, "log": log[-2500:]}


if __name__ == "__main__":
    args = [a for a in sys.argv[1:] if not a.startswith("--")]
    sys.stdout.write(translate_interpw(args[0] if args else "/repo"))
