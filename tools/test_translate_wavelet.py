#!/usr/bin/env python3
"""Self-test of tools/translate_wavelet.py: small textual mutations of COPIES of sigpy/wavelet.py and sigpy/linop.py.

For every mutation the copies are translated; expected outcome: the translation FAILS CLOSED (TranslationError naming the
line) or the first lemma of Gen_wavelet.v that no longer compiles is named.  The unmodified sources and the
meaning-preserving edits that keep the AST shape must pass; meaning-preserving edits that change the generated TERM are
listed with the expectation "breaks" (accepted by the brief: the check then falls back to the correspondence and the oracle).
Scratch copies: /verif/build/trwavelet_selftest/<name>/{sigpy/wavelet.py,sigpy/linop.py,Gen_wavelet.v}.

    /venv/bin/python tools/test_translate_wavelet.py [repo] [--no-seeded]        exit 0 = everything as expected
"""
import concurrent.futures
import os
import shutil
import subprocess
import sys
import time

HERE = os.path.dirname(os.path.abspath(__file__))
sys.path.insert(0, os.path.dirname(HERE))
from tools import translate_wavelet as T      # noqa: E402
from vlib import core                        # noqa: E402

SCRATCH = os.path.join(core.BUILD, "trwavelet_selftest")
W, L = T.SRC_WAVELET, T.SRC_LINOP

PAD = "((i + 1) // 2) * 2"
DEC_GWS = 'np.zeros(zshape), wave_name, mode="zero", axes=axes, level=level'
DEC_FWT = 'zinput, wave_name, mode="zero", axes=axes, level=level'
W_INIT = ("        self.wave_name = wave_name\n        self.axes = axes\n        self.level = level\n"
          "        oshape, _ = wavelet.get_wavelet_shape(\n            ishape, wave_name=wave_name, axes=axes, level=level\n        )\n\n"
          "        super().__init__(oshape, ishape)\n")
IW_INIT = ("        self.wave_name = wave_name\n        self.axes = axes\n        self.level = level\n"
           "        ishape, self.coeff_slices = wavelet.get_wavelet_shape(\n            oshape, wave_name=wave_name, axes=axes, level=level\n        )\n"
           "        super().__init__(oshape, ishape)\n")
W_APPLY = ("            return wavelet.fwt(\n                input,\n                wave_name=self.wave_name,\n                axes=self.axes,\n"
           "                level=self.level,\n            )\n")
IW_APPLY = ("            return wavelet.iwt(\n                input,\n                self.oshape,\n                self.coeff_slices,\n"
            "                wave_name=self.wave_name,\n                axes=self.axes,\n                level=self.level,\n            )\n")

# (name, file, old text, new text, which occurrence (0-based; -1 = all), expectation)
#   "caught": a defect -- must fail closed or break a lemma;  "pass": meaning-preserving, must still be accepted;
#   "breaks": meaning-preserving but changes the generated term / leaves the fragment -- reported, and said so
MUTATIONS = [
    # ---- get_wavelet_shape -------------------------------------------------------------------------------------------
    ("gws_pad_rounds_down", W, PAD, "(i // 2) * 2", 0, "caught"),
    ("gws_pad_plus_2", W, PAD, "((i + 2) // 2) * 2", 0, "caught"),
    ("gws_pad_wrong_divisor", W, PAD, "((i + 1) // 3) * 2", 0, "caught"),
    ("gws_no_padding", W, "zshape = [" + PAD + " for i in shape]", "zshape = [i for i in shape]", 0, "caught"),
    ("gws_zeros_of_unpadded_shape", W, "np.zeros(zshape)", "np.zeros(shape)", 0, "caught"),
    ("gws_mode_periodization", W, DEC_GWS, DEC_GWS.replace('"zero"', '"periodization"'), 0, "caught"),
    ("gws_mode_dropped", W, DEC_GWS, DEC_GWS.replace(' mode="zero",', ""), 0, "caught"),
    ("gws_axes_dropped", W, DEC_GWS, DEC_GWS.replace(" axes=axes,", ""), 0, "caught"),
    ("gws_level_dropped", W, DEC_GWS, DEC_GWS.replace(", level=level", ""), 0, "caught"),
    ("gws_pack_axes_dropped", W, "pywt.coeffs_to_array(tmp, axes=axes)", "pywt.coeffs_to_array(tmp)", 0, "caught"),
    ("gws_return_swapped", W, "return oshape, coeff_slices", "return coeff_slices, oshape", 0, "caught"),
    ("gws_oshape_is_padded_shape", W, "oshape = tmp.shape", "oshape = zshape", 0, "caught"),
    ("gws_default_wavelet", W, 'def get_wavelet_shape(shape, wave_name="db4"', 'def get_wavelet_shape(shape, wave_name="db2"', 0, "caught"),
    # ---- fwt ---------------------------------------------------------------------------------------------------------
    ("fwt_pad_rounds_down", W, PAD + " for i in input.shape", "(i // 2) * 2 for i in input.shape", 0, "caught"),
    ("fwt_pad_minus_1", W, PAD + " for i in input.shape", "((i + 1) // 2) * 2 - 1 for i in input.shape", 0, "caught"),
    ("fwt_resize_dropped", W, "zinput = util.resize(input, zshape)", "zinput = input", 0, "caught"),
    ("fwt_mode_symmetric", W, DEC_FWT, DEC_FWT.replace('"zero"', '"symmetric"'), 0, "caught"),
    ("fwt_level_none", W, DEC_FWT, DEC_FWT.replace("level=level", "level=None"), 0, "caught"),
    ("fwt_level_constant", W, DEC_FWT, DEC_FWT.replace("level=level", "level=1"), 0, "caught"),
    ("fwt_axes_none", W, DEC_FWT, DEC_FWT.replace("axes=axes", "axes=None"), 0, "caught"),
    ("fwt_axes_level_swapped", W, DEC_FWT, DEC_FWT.replace("axes=axes, level=level", "axes=level, level=axes"), 0, "caught"),
    ("fwt_decomposes_unpadded_input", W, DEC_FWT, DEC_FWT.replace("zinput,", "input,"), 0, "caught"),
    ("fwt_swapped_positional", W, DEC_FWT, DEC_FWT.replace("zinput, wave_name,", "wave_name, zinput,"), 0, "caught"),
    ("fwt_pack_axes_dropped", W, "pywt.coeffs_to_array(coeffs, axes=axes)", "pywt.coeffs_to_array(coeffs)", 0, "caught"),
    ("fwt_pack_padding_1", W, "pywt.coeffs_to_array(coeffs, axes=axes)", "pywt.coeffs_to_array(coeffs, padding=1, axes=axes)", 0, "caught"),
    ("fwt_returns_padded_input", W, "    output = backend.to_device(output, device)\n    return output\n\n\ndef iwt",
     "    output = backend.to_device(zinput, device)\n    return output\n\n\ndef iwt", 0, "caught"),
    # ---- iwt ---------------------------------------------------------------------------------------------------------
    ("iwt_mode_periodization", W, 'pywt.waverecn(input, wave_name, mode="zero", axes=axes)', 'pywt.waverecn(input, wave_name, mode="periodization", axes=axes)', 0, "caught"),
    ("iwt_mode_dropped", W, 'pywt.waverecn(input, wave_name, mode="zero", axes=axes)', "pywt.waverecn(input, wave_name, axes=axes)", 0, "caught"),
    ("iwt_axes_dropped", W, 'pywt.waverecn(input, wave_name, mode="zero", axes=axes)', 'pywt.waverecn(input, wave_name, mode="zero")', 0, "caught"),
    ("iwt_wavelet_literal", W, 'pywt.waverecn(input, wave_name, mode="zero", axes=axes)', 'pywt.waverecn(input, "db4", mode="zero", axes=axes)', 0, "caught"),
    ("iwt_crop_dropped", W, "    output = util.resize(output, oshape)\n", "", 0, "caught"),
    ("iwt_crop_rescaled", W, "output = util.resize(output, oshape)", "output = util.resize(output, oshape) * 2", 0, "caught"),
    ("iwt_crop_to_padded_shape", W, "output = util.resize(output, oshape)", "output = util.resize(output, [" + PAD + " for i in oshape])", 0, "caught"),
    ("iwt_output_format", W, 'output_format="wavedecn"', 'output_format="wavedec2"', 0, "caught"),
    ("iwt_default_level", W, "def iwt(input, oshape, coeff_slices, wave_name=\"db4\", axes=None, level=None)",
     "def iwt(input, oshape, coeff_slices, wave_name=\"db4\", axes=None, level=1)", 0, "caught"),
    ("iwt_parameters_reordered", W, "def iwt(input, oshape, coeff_slices,", "def iwt(input, coeff_slices, oshape,", 0, "caught"),
    ("fwt_redefined_later", W, "def iwt(input, oshape", "def fwt(input, wave_name=\"db4\", axes=None, level=None):\n    return input\n\n\ndef iwt(input, oshape", 0, "caught"),
    # ---- linop.py: Wavelet / InverseWavelet / Linop.__init__ ------------------------------------------------------------
    ("W_init_shapes_swapped", L, W_INIT, W_INIT.replace("super().__init__(oshape, ishape)", "super().__init__(ishape, oshape)"), 0, "caught"),
    ("W_init_axes_not_stored", L, W_INIT, W_INIT.replace("self.axes = axes", "self.axes = None"), 0, "caught"),
    ("W_init_level_not_passed", L, W_INIT, W_INIT.replace("axes=axes, level=level", "axes=axes"), 0, "caught"),
    ("W_init_level_not_stored", L, W_INIT, W_INIT.replace("self.wave_name = wave_name\n        self.axes = axes\n        self.level = level",
                                                             "self.wave_name = wave_name\n        self.axes = axes\n        self.level = None"), 0, "caught"),
    ("W_init_default_wavelet", L, 'def __init__(self, ishape, axes=None, wave_name="db4", level=None):', 'def __init__(self, ishape, axes=None, wave_name="haar", level=None):', 0, "caught"),
    ("W_apply_level_not_passed", L, W_APPLY, W_APPLY.replace("                level=self.level,\n", ""), 0, "caught"),
    ("W_apply_axes_none", L, W_APPLY, W_APPLY.replace("axes=self.axes", "axes=None"), 0, "caught"),
    ("W_apply_wave_not_passed", L, W_APPLY, W_APPLY.replace("                wave_name=self.wave_name,\n", ""), 0, "caught"),
    ("IW_init_shapes_swapped", L, IW_INIT, IW_INIT.replace("super().__init__(oshape, ishape)", "super().__init__(ishape, oshape)"), 0, "caught"),
    ("IW_init_level_none", L, IW_INIT, IW_INIT.replace("axes=axes, level=level", "axes=axes, level=None"), 0, "caught"),
    ("IW_init_slices_dropped", L, IW_INIT, IW_INIT.replace("ishape, self.coeff_slices = ", "ishape, _ = "), 0, "caught"),
    ("IW_apply_crops_to_ishape", L, IW_APPLY, IW_APPLY.replace("self.oshape,", "self.ishape,"), 0, "caught"),
    ("IW_apply_axes_not_passed", L, IW_APPLY, IW_APPLY.replace("                axes=self.axes,\n", ""), 0, "caught"),
    ("IW_apply_calls_fwt", L, IW_APPLY, IW_APPLY.replace("wavelet.iwt(", "wavelet.fwt("), 0, "caught"),
    ("Linop_init_shapes_swapped", L, "        self.oshape = list(oshape)\n        self.ishape = list(ishape)\n",
     "        self.oshape = list(ishape)\n        self.ishape = list(oshape)\n", 0, "caught"),
    ("Linop_apply_shape_check_removed", L, "            self._check_ishape(input)\n            output = self._apply(input)\n",
     "            output = self._apply(input)\n", 0, "caught"),
    ("W_apply_patched_at_module_level", L, "class Sum(Linop):", "Wavelet._apply = lambda self, input: input\n\n\nclass Sum(Linop):", 0, "caught"),
    # ---- meaning-preserving edits that keep the AST shape: the tie must survive them -----------------------------------
    ("neutral_rename_local", W, "zinput", "padded_input", -1, "pass"),
    ("neutral_comments_docstring", W, "    zinput = util.resize(input, zshape)\n", "    # zero-pad about the centre\n    zinput = util.resize(input, zshape)  # even lengths\n", 0, "pass"),
    ("neutral_unused_local", W, "    zinput = util.resize(input, zshape)\n", "    in_shape = input.shape\n    zinput = util.resize(input, zshape)\n", 0, "pass"),
    ("neutral_keywords_to_positional", W, 'pywt.waverecn(input, wave_name, mode="zero", axes=axes)', 'pywt.waverecn(input, wave_name, "zero", axes)', 0, "pass"),
    ("neutral_keyword_order", W, DEC_FWT, 'zinput, wave_name, level=level, axes=axes, mode="zero"', 0, "pass"),
    ("neutral_explicit_default_padding", W, "pywt.coeffs_to_array(coeffs, axes=axes)", "pywt.coeffs_to_array(coeffs, padding=0, axes=axes)", 0, "pass"),
    ("neutral_default_output_format", W, ', output_format="wavedecn")', ")", 0, "pass"),
    ("neutral_linop_positional_wave", L, W_INIT, W_INIT.replace("ishape, wave_name=wave_name, axes=axes", "ishape, wave_name, axes=axes"), 0, "pass"),
    ("neutral_linop_rename_local", L, W_INIT, W_INIT.replace("oshape, _ =", "coeff_shape, _ =").replace("__init__(oshape, ishape)", "__init__(coeff_shape, ishape)"), 0, "pass"),
    # ---- meaning-preserving edits that change the TERM / leave the fragment: reported (accepted) ---------------------------
    ("refactor_pad_formula_i_plus_parity", W, PAD, "i + i % 2", 0, "breaks"),
    ("refactor_pad_product_commuted", W, PAD, "2 * ((i + 1) // 2)", 0, "breaks"),
    ("refactor_zshape_tuple", W, "zshape = [" + PAD + " for i in shape]", "zshape = tuple(" + PAD + " for i in shape)", 0, "breaks"),
    ("neutral_return_expression", W, "    output = backend.to_device(output, device)\n    return output\n\n\ndef iwt", "    return backend.to_device(output, device)\n\n\ndef iwt", 0, "pass"),
]


def nth_replace(text, old, new, k):
    if k == -1:
        assert old in text, old
        return text.replace(old, new)
    idx = -1
    for _ in range(k + 1):
        idx = text.find(old, idx + 1)
        if idx < 0:
            raise AssertionError("pattern not found (occurrence %d): %r" % (k, old))
    return text[:idx] + new + text[idx + len(old):]


def compile_gen(path):
    p = subprocess.run(["coqc", "-w", "-all", "-Q", core.COQ, "SV", path], cwd=os.path.dirname(path),
                       stdout=subprocess.PIPE, stderr=subprocess.STDOUT, text=True, timeout=600)
    return p.returncode, p.stdout


def one(name, srcs):
    d = os.path.join(SCRATCH, name.replace(":", "_"))
    shutil.rmtree(d, ignore_errors=True)
    os.makedirs(os.path.join(d, "sigpy"))
    for rel, text in srcs.items():
        with open(os.path.join(d, rel), "w") as f:
            f.write(text)
    try:
        text = T.translate_wavelet(d)               # reads <d>/sigpy/wavelet.py, <d>/sigpy/linop.py
    except T.TranslationError as e:
        return ("fails closed", str(e))
    except SyntaxError as e:
        return ("fails closed", "SyntaxError: %s" % e)
    path = os.path.join(d, "Gen_wavelet.v")
    with open(path, "w") as f:
        f.write(text)
    rc, out = compile_gen(path)
    if rc == 0:
        return ("ok", "")
    return ("lemma fails", str(T.failing_lemma(text, out)))


def seeded_patches(src0):
    """the seeded changes of /verif/seeded for C10 that touch wavelet.py / linop.py (informational)"""
    out = []
    root = os.path.join(core.VERIF, "seeded")
    for name in sorted(os.listdir(root)) if os.path.isdir(root) else []:
        patch = os.path.join(root, name, "patch.diff")
        if not name.startswith("C10_") or not os.path.exists(patch):
            continue
        files = [l.split()[1][2:] for l in open(patch) if l.startswith("+++ ")]
        if not set(files) & {W, L}:
            out.append(("seeded:" + name, None, "touches neither file"))
            continue
        d = os.path.join(SCRATCH, "seeded_src_" + name)
        shutil.rmtree(d, ignore_errors=True)
        os.makedirs(os.path.join(d, "sigpy"))
        for rel, text in src0.items():
            open(os.path.join(d, rel), "w").write(text)
        for f in files:                                  # other files the patch touches: empty placeholders are not enough
            if f not in src0 and os.path.exists(os.path.join(core.REPO, f)):
                os.makedirs(os.path.dirname(os.path.join(d, f)), exist_ok=True)
                shutil.copy(os.path.join(core.REPO, f), os.path.join(d, f))
        p = subprocess.run(["patch", "-p1", "-s", "--no-backup-if-mismatch", "-d", d, "-i", patch],
                           stdout=subprocess.PIPE, stderr=subprocess.STDOUT, text=True)
        if p.returncode:
            out.append(("seeded:" + name, None, "does not apply"))
            continue
        out.append(("seeded:" + name, {rel: open(os.path.join(d, rel)).read() for rel in src0}, "info"))
        shutil.rmtree(d, ignore_errors=True)
    return out


def main():
    pos = [a for a in sys.argv[1:] if not a.startswith("--")]
    repo = pos[0] if pos else core.REPO
    t0 = time.time()
    ok, log = core.coq_make(["model/WaveletPywt.vo", "model/OpaqueWavelet.vo"], timeout=1500)
    if not ok:
        print("cannot build the hand models:\n" + log[-1500:])
        return 2
    src0 = {rel: open(os.path.join(repo, rel)).read() for rel in (W, L)}
    jobs = [("UNMODIFIED", src0, "pass")]
    for name, rel, old, new, k, expect in MUTATIONS:
        srcs = dict(src0)
        srcs[rel] = nth_replace(src0[rel], old, new, k)
        jobs.append((name, srcs, expect))
    if "--no-seeded" not in sys.argv:
        for j in seeded_patches(src0):
            if j[1] is None:
                print("%-36s %s" % (j[0], j[2]))
            else:
                jobs.append(j)
    with concurrent.futures.ThreadPoolExecutor(max_workers=8) as ex:
        results = list(ex.map(lambda j: one(j[0], j[1]), jobs))
    bad = 0
    tally = {}
    print("%-36s %-8s %-9s %s" % ("mutation", "expected", "verdict", "how"))
    for (name, _, expect), (how, detail) in zip(jobs, results):
        verdict = "pass" if how == "ok" else "caught"
        good = expect == "info" or verdict == {"caught": "caught", "breaks": "caught", "pass": "pass"}[expect]
        bad += 0 if good else 1
        tally[(expect, how)] = tally.get((expect, how), 0) + 1
        print("%-36s %-8s %-9s %s%s" % (name, expect, verdict + ("" if good else " (!!)"), how, (": " + detail[:230]) if detail else ""))
    print("; ".join("%s/%s: %d" % (e, h, n) for (e, h), n in sorted(tally.items())))
    print("%d cases, %d unexpected, %.1fs" % (len(jobs), bad, time.time() - t0))
    return 1 if bad else 0


if __name__ == "__main__":
    sys.exit(main())
