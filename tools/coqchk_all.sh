#!/bin/bash
# Re-check every compiled property file (and everything it depends on) with the independent checker coqchk and
# list the axioms each relies on.  Writes coqchk_report.txt (slow: minutes per file, up to ~4 GB each).
cd "$(dirname "$0")/../coq"
out=../coqchk_report.txt
echo "coqchk -o report, $(date -u +%Y-%m-%dT%H:%MZ), coq $(coqc --version | head -1)" > $out
for f in props/Prop_C*.v; do
  m=SV.props.$(basename $f .v)
  echo "== $m" >> $out
  ( ulimit -s unlimited; timeout 3000 coqchk -silent -o -Q . SV $m 2>&1 | sed -n '/CONTEXT SUMMARY/,$p' | grep -v "^$" | head -60 ) >> $out
  echo "exit: ${PIPESTATUS[0]}" >> $out
done
